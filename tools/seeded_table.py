#!/usr/bin/env python3
"""Prints the markdown table of seeded changes (seeded/*/meta.json + detection.json + confirmation.json)."""
import glob, json, os
rows = []
for d in sorted(glob.glob(os.path.join(os.path.dirname(os.path.dirname(os.path.abspath(__file__))), "seeded", "*"))):
    if not os.path.isdir(d):
        continue
    name = os.path.basename(d)
    meta = json.load(open(os.path.join(d, "meta.json")))
    det = json.load(open(os.path.join(d, "detection.json"))) if os.path.exists(os.path.join(d, "detection.json")) else {}
    conf = json.load(open(os.path.join(d, "confirmation.json"))) if os.path.exists(os.path.join(d, "confirmation.json")) else {}
    res = det.get("results", {})
    cells = []
    for p, r in res.items():
        first = (r.get("first") or [""])[0]
        sig = first.split("]")[0].lstrip("[") if first else ""
        cells.append(f"{p}: {'**caught**' if r['exit'] == 1 else ('inconclusive' if r['exit'] == 2 else 'MISSED')} ({r['wall_s']} s){' `' + sig[:60] + '`' if sig else ''}")
    note = json.load(open(os.path.join(d, "note.json")))["note"] if os.path.exists(os.path.join(d, "note.json")) else ""
    summary = " ".join(str(meta.get("summary", "")).split())[:230]
    needs = " ".join(str(meta.get("needs_to_manifest", "")).split())[:200]
    rows.append(f"| {name} | {summary} | {needs} | {'yes' if conf.get('confirmed') else ('no' if conf else '?')} | {'; '.join(cells)}{(' — ' + note) if note else ''} |")
print("| id | change | needs to manifest | confirmed by me | quick check(s) |")
print("|---|---|---|---|---|")
print("\n".join(rows))
