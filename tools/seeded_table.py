#!/usr/bin/env python3
"""Prints the markdown table of seeded changes (seeded/*/meta.json + detection.json + confirmation.json)."""
import glob, json, os
rows = []
for d in sorted(glob.glob(os.path.join(os.path.dirname(os.path.dirname(os.path.abspath(__file__))), "seeded", "*"))):
    if not os.path.isdir(d):
        continue
    name = os.path.basename(d)
    meta = json.load(open(os.path.join(d, "meta.json")))
    det = json.load(open(os.path.join(d, "detection.json"))) if os.path.exists(os.path.join(d, "detection.json")) else {}
    conf = json.load(open(os.path.join(d, "confirmation.json"))) if os.path.exists(os.path.join(d, "confirmation.json")) else {}
    res = det.get("results", {})
    cells = []
    for p, r in res.items():
        first = (r.get("first") or [""])[0]
        sig = first.split("]")[0].lstrip("[") if first else ""
        cells.append(f"{p}: {'**caught**' if r['exit'] == 1 else ('inconclusive' if r['exit'] == 2 else 'MISSED')} ({r['wall_s']} s){' `' + sig[:60] + '`' if sig else ''}")
    note = json.load(open(os.path.join(d, "note.json")))["note"] if os.path.exists(os.path.join(d, "note.json")) else ""
    def clip(t, n):
        t = " ".join(str(t).split()).replace("|", "/")
        return t if len(t) <= n else t[: n - 1].rsplit(" ", 1)[0] + " …"
    summary = clip(meta.get("summary", ""), 210)
    needs = clip(meta.get("needs_to_manifest", ""), 170)
    rows.append(f"| {name} | {summary} | {needs} | {'yes' if conf.get('confirmed') else ('no' if conf else '?')} | {'; '.join(cells)}{(' — ' + note) if note else ''} |")
table = "| id | change | needs to manifest | confirmed by me | quick check(s) |\n|---|---|---|---|---|\n" + "\n".join(rows)
import sys
if "--update-design" in sys.argv:
    dp = os.path.join(os.path.dirname(os.path.dirname(os.path.abspath(__file__))), "DESIGN.md")
    d = open(dp).read()
    a = d.index("<!-- SEEDED-TABLE-BEGIN -->") + len("<!-- SEEDED-TABLE-BEGIN -->")
    b = d.index("<!-- SEEDED-TABLE-END -->")
    open(dp, "w").write(d[:a] + "\n" + table + "\n" + d[b:])
    print(f"DESIGN.md updated with {len(rows)} rows")
else:
    print(table)
