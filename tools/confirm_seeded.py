#!/usr/bin/env python3
"""Confirms a seeded change independently in a scratch worktree of /repo (outside /repo and /verif):
 (1) patch.diff applies to a clean checkout and compiles, (2) the existing suite passes with it,
 (3) the demonstration fails with it, (4) the demonstration passes without it.

  tools/confirm_seeded.py <dir with patch.diff + demo.*>  [--keep]
Demonstration forms: demo.diff (adds #[test]s; run through the whole suite), demo.py / demo.sh
(run with the worktree as cwd and RCE_BIN pointing at the release binary; exit 0 = property holds).
"""
import json, os, re, shutil, subprocess, sys

NEXTEST = "cargo nextest run --workspace --no-fail-fast --tool-config-file pb:/w/lib/nextest.toml --profile pb --test-threads 8 --offline"


def sh(cmd, cwd=None, timeout=1800, env=None):
    return subprocess.run(cmd, shell=True, cwd=cwd, stdout=subprocess.PIPE, stderr=subprocess.STDOUT, text=True, timeout=timeout, env=env)


def suite(wt, hooks=False):
    env = dict(os.environ, RUSTFLAGS="--cfg rce_verif", CARGO_TARGET_DIR=os.path.join(wt, "target/verif")) if hooks else None
    r = sh(NEXTEST, cwd=wt, env=env)
    m = re.search(r"(\d+) tests run: (\d+) passed(?:, (\d+) failed)?", r.stdout)
    failed = re.findall(r"^\s+FAIL \[.*?\] (\S+ \S+)", r.stdout, re.M)
    return (int(m.group(1)), int(m.group(2)), sorted(set(failed))) if m else (0, 0, ["<no summary>: " + r.stdout[-400:]])


def run_demo(wt, d, with_change):
    demo = [f for f in os.listdir(d) if f.startswith("demo.")]
    if not demo:
        return None, "no demo"
    f = demo[0]
    env = dict(os.environ, RCE_BIN=os.path.join(wt, "target/release/rust_chess_engine"), RCE_WT=wt)
    if f.endswith(".diff"):
        r = sh(f"git apply {d}/{f}", cwd=wt)
        if r.returncode != 0:
            return None, "demo.diff does not apply: " + r.stdout[-300:]
        hooks = "rce_verif" in open(os.path.join(d, f)).read()
        n, ok, failed = suite(wt, hooks)
        sh(f"git apply -R {d}/{f}", cwd=wt)
        return (n == ok and n > 329), f"{ok}/{n} pass; failed: {failed[:4]}"
    b = sh("cargo build --release --offline", cwd=wt)
    if b.returncode != 0:
        return None, "release build failed: " + b.stdout[-300:]
    # the scripts expect to live in <worktree>/SEEDED/<X>/ (that is where they were written)
    inwt = os.path.join(wt, "SEEDED", "X")
    shutil.rmtree(os.path.join(wt, "SEEDED"), ignore_errors=True)
    os.makedirs(inwt)
    shutil.copy(os.path.join(d, f), inwt)
    cmd = f"python3 SEEDED/X/{f}" if f.endswith(".py") else f"bash SEEDED/X/{f}"
    # demonstrations that drive a hooks-on binary (schedule points) say so in their header
    text = open(os.path.join(d, f)).read()
    if "rce_verif" in text and f.endswith(".py"):
        hb = sh("cargo build --release --offline --target-dir target/verif_demo", cwd=wt, env=dict(os.environ, RUSTFLAGS="--cfg rce_verif"))
        if hb.returncode != 0:
            return None, "hooks build failed: " + hb.stdout[-300:]
        hooks_bin = os.path.join(wt, "target/verif_demo/release/rust_chess_engine")
        if "target/verif_demo" in text:
            cmd += f" {hooks_bin}"
        else:
            cmd += f" {env['RCE_BIN']} {hooks_bin}"
    r = sh(cmd, cwd=wt, env=env, timeout=900)
    return r.returncode == 0, f"exit {r.returncode}: " + r.stdout[-300:].replace("\n", " | ")


def main():
    d = os.path.abspath(sys.argv[1])
    wt = "/tmp/confirm_wt_" + os.path.basename(d).replace("/", "_")
    sh(f"git -C /repo worktree remove --force {wt}")
    shutil.rmtree(wt, ignore_errors=True)
    # RCE_CONFIRM_REV: confirm against an earlier commit of /repo (a change whose trigger was a
    # genuine defect that has been repaired since can only be confirmed on the tree before the repair)
    rev = os.environ.get("RCE_CONFIRM_REV", "HEAD")
    r = sh(f"git -C /repo worktree add -q --detach {wt} {rev}")
    out = {"dir": d, "rev": rev}
    try:
        ok0, msg0 = run_demo(wt, d, False)
        out["demo_passes_without_change"] = ok0
        out["demo_without"] = msg0
        r = sh(f"git apply {d}/patch.diff", cwd=wt)
        if r.returncode != 0:
            sh("git update-index -q --refresh", cwd=wt)
            r = sh(f"git apply --3way {d}/patch.diff", cwd=wt)
        out["applies"] = r.returncode == 0
        if r.returncode != 0:
            out["apply_error"] = r.stdout[-400:]
        if r.returncode == 0:
            n, ok, failed = suite(wt)
            out["suite_with_change"] = f"{ok}/{n}"
            out["tests_pass_with_change"] = (n == ok == 329)
            if failed:
                out["failed"] = failed[:5]
            ok1, msg1 = run_demo(wt, d, True)
            out["demo_fails_with_change"] = (ok1 is False)
            out["demo_with"] = msg1
        out["confirmed"] = bool(out.get("applies") and out.get("tests_pass_with_change") and out.get("demo_fails_with_change") and out.get("demo_passes_without_change"))
    finally:
        if "--keep" not in sys.argv:
            sh(f"git -C /repo worktree remove --force {wt}")
            shutil.rmtree(wt, ignore_errors=True)
    print(json.dumps(out, indent=1))
    with open(os.path.join(d, "confirmation.json"), "w") as f:
        json.dump(out, f, indent=1)
    return 0 if out.get("confirmed") else 1


if __name__ == "__main__":
    sys.exit(main())
