#!/usr/bin/env python3
"""Applies one seeded change (seeded/<id>/patch.diff) to /repo, runs the given checks at the quick
tier, prints what fired, and always restores /repo afterwards (git checkout -- .).

  tools/run_seeded.py seeded/C01-A [C01 C03 ...]     (default: the property named in meta.json)
"""
import json, os, subprocess, sys, time

VERIF = os.path.dirname(os.path.dirname(os.path.abspath(__file__)))
REPO = "/repo"


def sh(cmd, **kw):
    return subprocess.run(cmd, shell=True, stdout=subprocess.PIPE, stderr=subprocess.STDOUT, text=True, **kw)


def main():
    d = os.path.abspath(sys.argv[1])
    meta = json.load(open(os.path.join(d, "meta.json")))
    props = sys.argv[2:] or [meta["property"]]
    tier = os.environ.get("VERIF_TIER", "quick")
    st = sh(f"git -C {REPO} status --porcelain --untracked-files=no").stdout.strip()
    if st:
        print("refusing: /repo has uncommitted changes:\n" + st)
        return 2
    r = sh(f"git -C {REPO} apply {d}/patch.diff")
    if r.returncode != 0:
        # hook commits made after the change was written may have moved its context: 3-way apply
        sh(f"git -C {REPO} update-index -q --refresh")
        r = sh(f"git -C {REPO} apply --3way {d}/patch.diff")
        if r.returncode != 0:
            sh(f"git -C {REPO} reset -q --hard HEAD")
            print("patch does not apply:", r.stdout)
            return 2
    results = {}
    try:
        for p in props:
            t = time.time()
            r = sh(f"./check {p} --tier {tier}", cwd=VERIF)
            viol = [l for l in r.stdout.splitlines() if l.startswith("VIOLATION")]
            sigs = [l.strip() for l in r.stdout.splitlines() if l.startswith("  [")]
            incon = [l for l in r.stdout.splitlines() if "INCONCLUSIVE" in l]
            results[p] = {"exit": r.returncode, "violations": len(viol), "first": sigs[:3], "inconclusive": incon[:2], "wall_s": round(time.time() - t, 1)}
            print(f"{os.path.basename(d)} -> check {p}: exit={r.returncode} violation_lines={len(viol)} wall={results[p]['wall_s']}s")
            for s in sigs[:3]:
                print("    ", s[:300])
            for s in incon[:2]:
                print("    ", s[:300])
            summary = [l for l in r.stdout.splitlines() if l.startswith(f"[{p}]")]
            if summary:
                print("    ", summary[-1][:300])
    finally:
        sh(f"git -C {REPO} reset -q --hard HEAD")
        # evidence and replay files written while the change was applied are not evidence of anything
        sh(f"git -C {VERIF} checkout -- evidence", cwd=VERIF)
        sh(f"git -C {VERIF} clean -fdq replay", cwd=VERIF)
    with open(os.path.join(d, "detection.json"), "w") as f:
        json.dump({"tier": tier, "results": results, "at": time.strftime("%Y-%m-%d %H:%M:%S")}, f, indent=1)
    return 0


if __name__ == "__main__":
    sys.exit(main())
