//! Entry point of the verification harness. See /verif/DESIGN.md.
pub mod board;
pub mod c10;
pub mod c12;
pub mod c13s;
pub mod corpus;
pub mod eng;
pub mod oracle;
pub mod out;
pub mod rng;
pub mod search;
pub mod session;
pub mod tables;
pub mod uci;

use std::sync::Mutex;

static LAST_PANIC: Mutex<String> = Mutex::new(String::new());
thread_local! {
    static TL_PANIC: std::cell::RefCell<String> = const { std::cell::RefCell::new(String::new()) };
}

pub fn last_panic_location() -> String {
    let tl = TL_PANIC.with(|c| c.borrow().clone());
    if tl.is_empty() {
        LAST_PANIC.lock().map(|g| g.clone()).unwrap_or_default()
    } else {
        tl
    }
}

fn install_panic_hook() {
    std::panic::set_hook(Box::new(|info| {
        let loc = info
            .location()
            .map(|l| {
                // paths of engine sources are seen through the symlink farm as src/<file>
                let f = l.file().rsplit_once("harness/").map_or(l.file(), |x| x.1);
                format!("{}:{}", f, l.line())
            })
            .unwrap_or_else(|| "?".to_string());
        TL_PANIC.with(|c| *c.borrow_mut() = loc.clone());
        if let Ok(mut g) = LAST_PANIC.lock() {
            *g = loc;
        }
    }));
}

pub struct Args {
    pub cmd: String,
    pub prop: String,
    pub tier: String,
    pub seed: u64,
    pub threads: usize,
    pub out: Option<String>,
    pub only_job: Option<usize>,
    pub time_cap: u64,
    pub rest: Vec<String>,
    pub shard: usize,
    pub of: usize,
    pub results: Option<String>,
    pub engine: String,
    pub order: u64,
}

fn parse_args() -> Args {
    let argv: Vec<String> = std::env::args().collect();
    let mut a = Args {
        cmd: argv.get(1).cloned().unwrap_or_default(),
        prop: String::new(),
        tier: "quick".to_string(),
        seed: 1,
        threads: 16,
        out: None,
        only_job: None,
        time_cap: 100_000,
        rest: Vec::new(),
        shard: 0,
        of: 1,
        results: None,
        engine: String::new(),
        order: 0,
    };
    let mut i = 2;
    while i < argv.len() {
        let v = argv.get(i + 1).cloned().unwrap_or_default();
        match argv[i].as_str() {
            "--prop" => {
                a.prop = v;
                i += 1;
            }
            "--tier" => {
                a.tier = v;
                i += 1;
            }
            "--seed" => {
                a.seed = v.parse().unwrap_or(1);
                i += 1;
            }
            "--threads" => {
                a.threads = v.parse().unwrap_or(16);
                i += 1;
            }
            "--out" => {
                a.out = Some(v);
                i += 1;
            }
            "--job" => {
                a.only_job = v.parse().ok();
                i += 1;
            }
            "--shard" => {
                a.shard = v.parse().unwrap_or(0);
                i += 1;
            }
            "--of" => {
                a.of = v.parse().unwrap_or(1);
                i += 1;
            }
            "--order" => {
                a.order = v.parse().unwrap_or(0);
                i += 1;
            }
            "--engine" => {
                a.engine = v;
                i += 1;
            }
            "--results" => {
                a.results = Some(v);
                i += 1;
            }
            "--time-cap" => {
                a.time_cap = v.parse().unwrap_or(100_000);
                i += 1;
            }
            other => a.rest.push(other.to_string()),
        }
        i += 1;
    }
    a
}

fn finish(a: &Args) -> ! {
    let text = out::render();
    match &a.out {
        Some(p) => {
            if let Err(e) = std::fs::write(p, &text) {
                eprintln!("cannot write {p}: {e}");
                std::process::exit(2);
            }
        }
        None => print!("{text}"),
    }
    std::process::exit(0);
}

pub fn main() {
    let a = parse_args();
    install_panic_hook();
    // The oracle earns its trust at the start of every run.
    if !matches!(a.cmd.as_str(), "selfcheck" | "tables") || a.cmd == "selfcheck" {
        match oracle::self_check(a.cmd == "selfcheck" || a.tier == "thorough") {
            Ok(n) => out::note(format!("oracle self-check passed ({n} perft nodes against published totals)")),
            Err(e) => {
                out::harness_error(format!("oracle self-check FAILED: {e}"));
                finish(&a);
            }
        }
    }
    match a.cmd.as_str() {
        "selfcheck" => {}
        "board" => {
            let Some(prop) = board::Prop::parse(&a.prop) else {
                eprintln!("unknown board property '{}'", a.prop);
                std::process::exit(2);
            };
            if let Err(e) = board::run(prop, &a.tier, a.seed, a.threads, a.only_job, a.time_cap) {
                out::harness_error(e);
            }
        }
        "tables" => tables::run(&a.tier, a.seed, a.threads),
        "uci" => {
            let ctx = uci::Ctx {
                engine: a.engine.clone(),
                tier: a.tier.clone(),
                seed: a.seed,
                threads: a.threads,
                only_job: a.only_job,
                time_cap: a.time_cap,
            };
            let r = match a.prop.as_str() {
                "C08" => uci::run_c08(&ctx),
                "C09" => uci::run_c09(&ctx, "C09"),
                "C14" => uci::run_c09(&ctx, "C14"),
                "C15" => uci::run_c15(&ctx),
                "C10" => c10::run_c10(&ctx),
                "C16" => uci::run_c16_uci(&ctx),
                "C13" => c13s::run_c13_uci(&ctx),
                other => Err(format!("unknown uci property '{other}'")),
            };
            if let Err(e) = r {
                out::harness_error(e);
            }
        }
        "search" => {
            let r = match a.prop.as_str() {
                "C11" => search::run_c11(&a.tier, a.seed, a.shard, a.of, a.only_job, a.time_cap),
                "C12" => c12::run_c12(&a.tier, a.seed, a.shard, a.of, a.only_job, a.time_cap),
                "C13" => search::run_c13(&a.tier, a.seed, a.shard, a.of, a.only_job, a.time_cap),
                "C16" => search::run_c16(&a.tier, a.seed, a.shard, a.of, a.results.as_deref(), a.time_cap, a.order),
                other => Err(format!("unknown search property '{other}'")),
            };
            if let Err(e) = r {
                out::harness_error(e);
            }
        }
        other => {
            eprintln!("unknown command '{other}'");
            std::process::exit(2);
        }
    }
    finish(&a);
}
