//! Adapters between engine types and oracle types. Only public engine API + the rce_verif views.
use crate::board::piece::{Color, Kind};
use crate::board::ply::castling::{CastlingKind, CastlingStatus};
use crate::board::square::Square;
use crate::board::zkey::ZKey;
use crate::board::{Board, Ply};

use super::oracle::{self, Mv, Pos};

pub fn kind_code(k: Kind) -> u8 {
    match k {
        Kind::Pawn(c) => oracle::P | col_code(c) << 3,
        Kind::Knight(c) => oracle::N | col_code(c) << 3,
        Kind::Bishop(c) => oracle::B | col_code(c) << 3,
        Kind::Rook(c) => oracle::R | col_code(c) << 3,
        Kind::Queen(c) => oracle::Q | col_code(c) << 3,
        Kind::King(c) => oracle::K | col_code(c) << 3,
    }
}

pub fn col_code(c: Color) -> u8 {
    match c {
        Color::White => 0,
        Color::Black => 1,
    }
}

pub fn code_col(c: u8) -> Color {
    if c == 0 {
        Color::White
    } else {
        Color::Black
    }
}

pub fn sq_idx(s: Square) -> u8 {
    s.rank * 8 + s.file
}

struct U64Catcher(u64);
impl std::hash::Hasher for U64Catcher {
    fn finish(&self) -> u64 {
        self.0
    }
    fn write(&mut self, _bytes: &[u8]) {}
    fn write_u64(&mut self, i: u64) {
        self.0 = i;
    }
}

/// The 64-bit value of a key (ZKey's field is private; its Hash impl writes exactly that value).
pub fn key_u64(k: ZKey) -> u64 {
    use std::hash::{Hash, Hasher};
    let mut h = U64Catcher(0);
    k.hash(&mut h);
    h.finish()
}

/// Everything the engine exposes about a move, in the oracle's compact code.
pub fn ply_code(p: &Ply) -> u32 {
    let m = Mv {
        from: sq_idx(p.start),
        to: sq_idx(p.dest),
        promo: p.promoted_to.map_or(0, |k| kind_code(k) & 7),
        castle: p.is_castles,
        ep: p.en_passant,
        double: p.is_double_pawn_push,
        captured: p.captured_piece.map_or(0, kind_code),
        piece: kind_code(p.piece),
    };
    m.code()
}

pub fn ply_matches(p: &Ply, m: &Mv) -> bool {
    sq_idx(p.start) == m.from
        && sq_idx(p.dest) == m.to
        && p.promoted_to.map_or(0, |k| kind_code(k) & 7) == m.promo
}

/// Engine position as seen through its public getters, in oracle form.
pub fn observe(b: &Board) -> Pos {
    let mut sq = [0u8; 64];
    for i in 0..64u8 {
        if let Some(k) = b.get_piece(Square::from(i)) {
            sq[i as usize] = kind_code(k);
        }
    }
    let mut castle = 0;
    if b.castle_status(CastlingKind::WhiteKingside) == CastlingStatus::Available {
        castle |= oracle::WK;
    }
    if b.castle_status(CastlingKind::WhiteQueenside) == CastlingStatus::Available {
        castle |= oracle::WQ;
    }
    if b.castle_status(CastlingKind::BlackKingside) == CastlingStatus::Available {
        castle |= oracle::BK;
    }
    if b.castle_status(CastlingKind::BlackQueenside) == CastlingStatus::Available {
        castle |= oracle::BQ;
    }
    Pos {
        sq,
        stm: col_code(b.current_turn),
        castle,
        ep: b.verif_en_passant_file().map_or(-1, |f| f as i8),
        half: u32::from(b.get_halfmove_clock()),
        full: u32::from(b.fullmove_counter),
    }
}

/// Describes the first difference between two observed positions.
pub fn diff(engine: &Pos, oracle: &Pos) -> Option<String> {
    for i in 0..64 {
        if engine.sq[i] != oracle.sq[i] {
            return Some(format!(
                "square {}{}: engine '{}' rules '{}'",
                (b'a' + (i as u8 & 7)) as char,
                (b'1' + (i as u8 >> 3)) as char,
                oracle::piece_char(engine.sq[i]),
                oracle::piece_char(oracle.sq[i])
            ));
        }
    }
    if engine.stm != oracle.stm {
        return Some(format!("side to move: engine {} rules {}", engine.stm, oracle.stm));
    }
    if engine.castle != oracle.castle {
        return Some(format!(
            "castling rights: engine {} rules {}",
            engine.castle_str(),
            oracle.castle_str()
        ));
    }
    if engine.ep != oracle.ep {
        return Some(format!("en passant file: engine {} rules {}", engine.ep, oracle.ep));
    }
    if engine.half != oracle.half {
        return Some(format!("halfmove clock: engine {} rules {}", engine.half, oracle.half));
    }
    if engine.full != oracle.full {
        return Some(format!("fullmove number: engine {} rules {}", engine.full, oracle.full));
    }
    None
}

/// Engine legal moves; `None` if the engine panicked while generating.
pub fn legal_codes(b: &mut Board) -> Vec<u32> {
    let mut v: Vec<u32> = b.get_legal_moves().iter().map(ply_code).collect();
    v.sort_unstable();
    v
}

pub fn oracle_codes(p: &Pos) -> Vec<u32> {
    let mut v: Vec<u32> = p.legal_moves().iter().map(Mv::code).collect();
    v.sort_unstable();
    v
}

/// Loads a FEN into the engine, catching panics of its reader.
pub fn load(fen: &str) -> Result<Board, String> {
    let f = fen.to_string();
    std::panic::catch_unwind(move || Board::from_fen(&f)).map_err(|e| panic_text(&e))
}

pub fn panic_text(e: &Box<dyn std::any::Any + Send>) -> String {
    if let Some(s) = e.downcast_ref::<&str>() {
        (*s).to_string()
    } else if let Some(s) = e.downcast_ref::<String>() {
        s.clone()
    } else {
        "panic (non-string payload)".to_string()
    }
}
