//! Process-level monitors over the real engine binary: C08 (position), C09 (go -> one legal
//! bestmove in time), C14 (info lines), C15 (hostile input, quit, end of input).
use std::sync::atomic::{AtomicUsize, Ordering};

use super::corpus;
use super::eng::{self, key_u64};
use super::oracle::{self, Mv, Pos};
use super::out::{self, esc};
use super::rng::Rng;
use super::session::{Engine, Src};

static MINIMISATIONS: AtomicUsize = AtomicUsize::new(0);

pub const START_FEN: &str = "rnbqkbnr/pppppppp/8/8/8/8/PPPPPPPP/RNBQKBNR w KQkq - 0 1";
const READY_TIMEOUT_MS: u64 = 8_000;
const EXIT_TIMEOUT_MS: u64 = 3_000;
const ALLOWANCE_MS: u64 = 1_500;
const WATCHDOG_MS: u64 = 20_000;

pub struct Ctx {
    pub engine: String,
    pub tier: String,
    pub seed: u64,
    pub threads: usize,
    pub only_job: Option<usize>,
    pub time_cap: u64,
}

pub(super) fn spawn(ctx: &Ctx, env: &[(String, String)]) -> Option<Engine> {
    match Engine::spawn(&ctx.engine, env) {
        Ok(e) => Some(e),
        Err(e) => {
            out::harness_error(e);
            None
        }
    }
}

fn replay_json(prop: &str, job: usize, e: &Engine) -> String {
    format!(
        "{{\"kind\":\"uci\",\"prop\":{},\"job\":{},\"script\":{}}}",
        esc(prop),
        job,
        out::str_list(&e.stdin_script())
    )
}

/// Runs `n` sessions on a pool of threads; each session is a pure function of (seed, index).
pub(super) fn pool(ctx: &Ctx, n: usize, f: impl Fn(&Ctx, usize) + Sync) {
    let next = AtomicUsize::new(0);
    let started = std::time::Instant::now();
    std::thread::scope(|s| {
        for _ in 0..ctx.threads.max(1) {
            s.spawn(|| loop {
                let i = next.fetch_add(1, Ordering::Relaxed);
                if i >= n {
                    break;
                }
                if let Some(j) = ctx.only_job {
                    if j != i {
                        continue;
                    }
                }
                if started.elapsed().as_secs() > ctx.time_cap {
                    out::inconclusive("sessions not started because the time cap was reached", 1);
                    continue;
                }
                let r = std::panic::catch_unwind(std::panic::AssertUnwindSafe(|| f(ctx, i)));
                if let Err(e) = r {
                    out::harness_error(format!("harness panic in session {i} at {}: {}", super::last_panic_location(), eng::panic_text(&e)));
                }
            });
        }
    });
}

// ---------------------------------------------------------------------------
// game / position generation through the oracle
// ---------------------------------------------------------------------------

#[derive(Clone)]
pub struct Game {
    pub start_fen: String,
    pub is_startpos: bool,
    pub moves: Vec<Mv>,
    /// positions[i] = position before moves[i]; positions.last() = final position
    pub positions: Vec<Pos>,
}

impl Game {
    pub fn last(&self) -> &Pos {
        self.positions.last().unwrap()
    }
    pub fn command(&self) -> String {
        let mut s = if self.is_startpos {
            "position startpos".to_string()
        } else {
            format!("position fen {}", self.start_fen)
        };
        if !self.moves.is_empty() {
            s.push_str(" moves");
            for m in &self.moves {
                s.push(' ');
                s.push_str(&m.uci());
            }
        }
        s
    }
}

fn weight(m: &Mv) -> u64 {
    let mut w = 1;
    // moves whose coordinate string looks like castling (or like "king takes own rook") although
    // another piece makes them: the classic notation trap of the position command
    if oracle::kind(m.piece) != oracle::K && !m.castle {
        let looks_like_castling = matches!(
            (m.from, m.to),
            (4, 6) | (4, 2) | (60, 62) | (60, 58) | (4, 7) | (4, 0) | (60, 63) | (60, 56)
        );
        if looks_like_castling {
            w += 40;
        }
    }
    if m.castle {
        w += 10;
    }
    if m.ep {
        w += 14;
    }
    if m.promo != 0 {
        w += 6;
    }
    if m.captured != 0 {
        w += 1;
    }
    w
}

pub fn random_game(rng: &mut Rng, seeds: &[String], max_len: u64, need_legal_at_end: bool) -> Game {
    loop {
        let (fen, is_startpos) = if rng.chance(2, 5) {
            (START_FEN.to_string(), true)
        } else {
            (rng.pick(seeds).clone(), false)
        };
        let mut p = Pos::from_fen(&fen).unwrap();
        let mut positions = vec![p.clone()];
        let mut moves = Vec::new();
        let len = rng.below(max_len + 1);
        for _ in 0..len {
            let lm = p.legal_moves();
            if lm.is_empty() || (p.half >= 98 && max_len <= 200) {
                break;
            }
            // occasionally go back and forth to create repetitions
            let m = if moves.len() >= 2 && rng.chance(1, 6) {
                let prev: &Mv = &moves[moves.len() - 2];
                lm.iter()
                    .find(|x| x.from == prev.to && x.to == prev.from && x.captured == 0 && x.promo == 0)
                    .copied()
                    .unwrap_or_else(|| *rng.pick(&lm))
            } else {
                let total: u64 = lm.iter().map(weight).sum();
                let mut r = rng.below(total);
                let mut pick = lm[0];
                for x in &lm {
                    let w = weight(x);
                    if r < w {
                        pick = *x;
                        break;
                    }
                    r -= w;
                }
                pick
            };
            p = p.make(&m);
            moves.push(m);
            positions.push(p.clone());
        }
        if need_legal_at_end && p.legal_moves().is_empty() {
            continue;
        }
        return Game {
            start_fen: fen,
            is_startpos,
            moves,
            positions,
        };
    }
}

/// The same game continued by up to `n` more legal moves.
pub fn extend_game(rng: &mut Rng, g: &Game, n: u64) -> Game {
    let mut g = g.clone();
    for _ in 0..n {
        let p = g.last().clone();
        let lm = p.legal_moves();
        if lm.is_empty() || p.half >= 98 {
            break;
        }
        let total: u64 = lm.iter().map(weight).sum();
        let mut r = rng.below(total);
        let mut pick = lm[0];
        for x in &lm {
            let w = weight(x);
            if r < w {
                pick = *x;
                break;
            }
            r -= w;
        }
        g.positions.push(p.make(&pick));
        g.moves.push(pick);
    }
    g
}

// ---------------------------------------------------------------------------
// C08
// ---------------------------------------------------------------------------

#[derive(Clone, PartialEq, Eq, Debug)]
struct Dump {
    squares: String,
    turn: String,
    rights: String,
    ep: String,
    half: String,
    full: String,
    key: String,
    record: String,
}

fn parse_dump(line: &str) -> Option<Dump> {
    let t: Vec<&str> = line.split_whitespace().collect();
    if t.len() < 17 || t[0] != "verif_dump" {
        return None;
    }
    let get = |k: &str| t.iter().position(|x| *x == k).and_then(|i| t.get(i + 1)).map(|s| (*s).to_string());
    Some(Dump {
        squares: get("squares")?,
        turn: get("turn")?,
        rights: get("rights")?,
        ep: get("ep")?,
        half: get("halfmove")?,
        full: get("fullmove")?,
        key: get("key")?,
        record: get("record")?,
    })
}

fn expected_dump(g: &Game) -> Result<Dump, String> {
    let p = g.last();
    // key and record from an in-process twin built with the engine's own code (C04 vouches for keys)
    let mut b = eng::load(&g.start_fen)?;
    let mut keys: Vec<String> = Vec::new();
    for (i, m) in g.moves.iter().enumerate() {
        keys.push(b.zkey.to_string());
        let plies = b.clone().get_legal_moves();
        let ply = plies
            .iter()
            .find(|x| eng::ply_matches(x, m))
            .ok_or_else(|| format!("in-process twin does not offer move #{i} {}", m.uci()))?;
        b.make_move(*ply);
    }
    keys.sort();
    keys.dedup();
    Ok(Dump {
        squares: p.sq.iter().map(|&c| oracle::piece_char(c)).collect(),
        turn: if p.stm == 0 { "w" } else { "b" }.to_string(),
        rights: p.castle_str(),
        ep: if p.ep < 0 { "-".to_string() } else { p.ep.to_string() },
        half: p.half.to_string(),
        full: p.full.to_string(),
        key: b.zkey.to_string(),
        record: format!("[{}]", keys.join(",")),
    })
}

fn dump_diff(got: &Dump, want: &Dump) -> Option<(String, String)> {
    for (name, a, b) in [
        ("squares", &got.squares, &want.squares),
        ("turn", &got.turn, &want.turn),
        ("rights", &got.rights, &want.rights),
        ("ep", &got.ep, &want.ep),
        ("halfmove", &got.half, &want.half),
        ("fullmove", &got.full, &want.full),
        ("key", &got.key, &want.key),
        ("record", &got.record, &want.record),
    ] {
        if a != b {
            return Some((name.to_string(), format!("{name}: engine '{a}' expected '{b}'")));
        }
    }
    None
}

fn get_dump(e: &mut Engine) -> Option<Dump> {
    e.send("verif_dump");
    let i = e.wait_out(READY_TIMEOUT_MS, "verif_dump ")?;
    parse_dump(&e.log[i].line.clone())
}

/// A move string that is NOT legal in `p` (verified), of one of the corruption classes.
fn corrupt_move(rng: &mut Rng, p: &Pos) -> (String, &'static str) {
    let legal: Vec<String> = p.legal_moves().iter().map(Mv::uci).collect();
    for _ in 0..50 {
        let (s, class): (String, &'static str) = match rng.below(9) {
            0 => {
                // pseudo-legal but leaves the king in check / castles through check
                let lm = p.legal_moves();
                let ps: Vec<Mv> = p.pseudo_moves().into_iter().filter(|m| !lm.contains(m)).collect();
                if ps.is_empty() {
                    continue;
                }
                (rng.pick(&ps).uci(), "pseudo-legal-only")
            }
            1 => {
                // promotion without / with a wrong suffix
                let promos: Vec<&String> = legal.iter().filter(|s| s.len() == 5).collect();
                if promos.is_empty() {
                    continue;
                }
                let base = &rng.pick(&promos)[..4];
                match rng.below(3) {
                    0 => (base.to_string(), "promotion-suffix-missing"),
                    1 => (format!("{base}k"), "promotion-suffix-wrong"),
                    _ => (format!("{base}Q"), "promotion-suffix-uppercase"),
                }
            }
            2 => {
                let quiet: Vec<&String> = legal.iter().filter(|s| s.len() == 4).collect();
                if quiet.is_empty() {
                    continue;
                }
                (format!("{}q", rng.pick(&quiet)), "suffix-on-non-promotion")
            }
            3 => {
                // a move that would be legal for the other side
                let o = p.swap_side();
                if !o.is_sane() {
                    continue;
                }
                let om = o.legal_moves();
                if om.is_empty() {
                    continue;
                }
                (rng.pick(&om).uci(), "other-sides-move")
            }
            4 => {
                if legal.is_empty() {
                    continue;
                }
                (rng.pick(&legal).to_uppercase(), "uppercase")
            }
            5 => ((*rng.pick(&["xyz", "e2e9", "0000", "e2-e4", "e2", "i1i2", "a0a1", "e2e4e5", "♞f3", "--"])).to_string(), "garbage"),
            6 => {
                // castling string when castling is not legal now
                let s = if p.stm == 0 { *rng.pick(&["e1g1", "e1c1"]) } else { *rng.pick(&["e8g8", "e8c8"]) };
                (s.to_string(), "castle-not-available")
            }
            7 => {
                // random squares
                let f = rng.below(64) as u8;
                let t = rng.below(64) as u8;
                (
                    Mv {
                        from: f,
                        to: t,
                        promo: 0,
                        castle: false,
                        ep: false,
                        double: false,
                        captured: 0,
                        piece: 0,
                    }
                    .uci(),
                    "random-squares",
                )
            }
            _ => {
                // an en-passant-looking capture onto an empty square
                let me = p.stm;
                let (fr, tr) = if me == 0 { (4u8, 5u8) } else { (3u8, 2u8) };
                let pawns: Vec<u8> = (0..8u8).filter(|f| p.sq[(fr * 8 + f) as usize] == (oracle::P | (me << 3))).collect();
                if pawns.is_empty() {
                    continue;
                }
                let f = *rng.pick(&pawns);
                let tf = if f == 0 { 1 } else if f == 7 { 6 } else if rng.chance(1, 2) { f - 1 } else { f + 1 };
                (
                    Mv {
                        from: fr * 8 + f,
                        to: tr * 8 + tf,
                        promo: 0,
                        castle: false,
                        ep: false,
                        double: false,
                        captured: 0,
                        piece: 0,
                    }
                    .uci(),
                    "en-passant-not-available",
                )
            }
        };
        if !legal.contains(&s) && !s.is_empty() && !s.contains(' ') {
            return (s, class);
        }
    }
    ("zz".to_string(), "garbage")
}

pub fn run_c08(ctx: &Ctx) -> Result<(), String> {
    let seeds: Vec<String> = corpus::all_seeds()?;
    let n = if ctx.tier == "thorough" { 60_000 } else { 5_000 };
    pool(ctx, n, |ctx, idx| c08_session(ctx, idx, &seeds));
    Ok(())
}

fn c08_session(ctx: &Ctx, idx: usize, seeds: &[String]) {
    let mut rng = Rng::derive(ctx.seed, 0xC08_0000 + idx as u64);
    let Some(mut e) = spawn(ctx, &[]) else { return };
    let start_game = Game {
        start_fen: START_FEN.to_string(),
        is_startpos: true,
        moves: vec![],
        positions: vec![Pos::startpos()],
    };
    let Ok(mut current) = expected_dump(&start_game) else { return };
    let steps = 4 + rng.below(8);
    let mut prev_game: Option<Game> = None;
    let mut searching_since: Option<usize> = None;
    for step in 0..steps {
        let from = e.log.len();
        if let Some(since) = searching_since.take() {
            e.send("stop");
            if e.wait_since(since, 5_000, |ev| ev.src == Src::Out && ev.line.starts_with("bestmove")).is_none() {
                out::inconclusive("C08 session: no bestmove after stop (C10's business)", 1);
                return;
            }
        }
        match rng.below(10) {
            0 => {
                e.send("ucinewgame");
                // the position after ucinewgame is the start position, whatever was set up before:
                // every component, the key and an empty record
                if let Ok(d) = expected_dump(&start_game) {
                    if let Some(got) = get_dump(&mut e) {
                        out::count("C08.evaluations", 1);
                        out::count("C08.dumps_after_ucinewgame", 1);
                        if let Some((field, why)) = dump_diff(&got, &d) {
                            out::violation(
                                "C08",
                                &format!("ucinewgame-{field}"),
                                format!("after ucinewgame the session position is not the start position: {why} (commands so far: {:?})", e.stdin_script().iter().rev().take(4).collect::<Vec<_>>()),
                                replay_json("C08", idx, &e),
                            );
                        }
                    }
                    current = d;
                }
                // a GUI may start a new game and then describe the old one again or go on with it
                // (analysis of a loaded game): what was sent before ucinewgame must not matter
                if rng.chance(1, 2) {
                    prev_game = None;
                } else if prev_game.is_some() {
                    out::count("C08.games_continued_across_ucinewgame", 1);
                }
                continue;
            }
            1 => {
                e.send("isready");
                if e.wait_out(READY_TIMEOUT_MS, "readyok").is_none() {
                    out::inconclusive("C08 session: no readyok (liveness is C15's business)", 1);
                    return;
                }
                continue;
            }
            2 => {
                // a search in between must not disturb what a later position command sets up
                e.send("go movetime 20");
                if e.wait_out(WATCHDOG_MS / 6, "bestmove").is_none() {
                    e.send("stop");
                    if e.wait_out(2_000, "bestmove").is_none() {
                        out::inconclusive("C08 session: no bestmove from a probe search (C09's business)", 1);
                        return;
                    }
                }
                continue;
            }
            3 if searching_since.is_none() => {
                // the next position command arrives while a search is running (analysis mode: the
                // user moves a piece on the board before the GUI has sent stop); the search works on
                // its own copy, so the command describes the session position like any other
                searching_since = Some(e.log.len());
                e.send(*rng.pick(&["go infinite", "go depth 40", "go movetime 600000", "go wtime 3600000 btime 3600000"]));
                out::count("C08.positions_sent_during_a_search", 1);
            }
            _ => {}
        }
        // like a GUI, most commands continue the game of the previous one (one or a few more
        // moves, a take-back, or the same again); the others start an unrelated game
        let n_more = 1 + rng.below(3);
        let g = match (&prev_game, rng.below(10)) {
            (Some(pg), 0..=3) => extend_game(&mut rng, pg, n_more),
            (Some(pg), 4) => {
                let mut g = pg.clone();
                let keep = rng.below(g.moves.len() as u64 + 1) as usize;
                g.moves.truncate(keep);
                g.positions.truncate(keep + 1);
                g
            }
            (Some(pg), 5) => pg.clone(),
            // the current game described as a bare FEN (no move list), like a GUI that only ever
            // sends the current position: first now, two plies later again
            (Some(pg), 6) if !pg.moves.is_empty() => {
                let cut = if rng.chance(1, 2) { pg.moves.len() } else { pg.moves.len().saturating_sub(2) };
                out::count("C08.bare_fen_of_the_current_game", 1);
                Game {
                    start_fen: pg.positions[cut].fen(),
                    is_startpos: false,
                    moves: vec![],
                    positions: vec![pg.positions[cut].clone()],
                }
            }
            // the same position once more, as a bare FEN with OTHER counters (an analysis GUI that
            // lets the user edit the move number or the fifty-move counter): the counters of the
            // command count, not those of the position that happens to be on the board
            (Some(pg), 7) => {
                let mut p = pg.last().clone();
                p.half = *rng.pick(&[0u32, 1, 7, 49, 50, 97, 98, 99]);
                if p.ep >= 0 {
                    p.half = 0;
                }
                p.full = 1 + rng.below(300) as u32;
                out::count("C08.same_position_with_other_counters", 1);
                Game {
                    start_fen: p.fen(),
                    is_startpos: false,
                    moves: vec![],
                    positions: vec![p],
                }
            }
            // now and then a very long game: a position command of several kilobytes, rarely of
            // more than 16 KB
            _ if rng.chance(1, 60) => random_game(&mut rng, seeds, 1_100, false),
            _ if rng.chance(1, 150) => random_game(&mut rng, seeds, 4_500, false),
            _ => random_game(&mut rng, seeds, 40, false),
        };
        if g.moves.len() > 800 {
            out::count("C08.commands_longer_than_800_plies", 1);
        }
        if g.command().len() > 16_384 {
            out::count("C08.commands_longer_than_16KB", 1);
        }
        // a GUI may also describe the same game from a later point: FEN of the position after k
        // plies (with its true clocks) followed by the remaining moves
        let g = if g.moves.len() >= 2 && rng.chance(1, 4) {
            let k = 1 + rng.below(g.moves.len() as u64 - 1) as usize;
            out::count("C08.commands_rooted_at_a_midgame_fen", 1);
            Game {
                start_fen: g.positions[k].fen(),
                is_startpos: false,
                moves: g.moves[k..].to_vec(),
                positions: g.positions[k..].to_vec(),
            }
        } else {
            g
        };
        let corrupt = rng.chance(2, 5) && g.moves.len() < 400;
        if !corrupt && !g.moves.is_empty() {
            prev_game = Some(g.clone());
        } else if !corrupt && g.moves.is_empty() && !g.is_startpos {
            // a bare FEN: the next command may be the bare FEN two plies on (same game continued)
            let cont = extend_game(&mut rng, &g, 2);
            if cont.moves.len() == 2 {
                prev_game = Some(cont);
            }
        }
        if !corrupt {
            let want = match expected_dump(&g) {
                Ok(d) => d,
                Err(err) => {
                    out::inconclusive(&format!("C08 in-process twin failed ({err})"), 1);
                    continue;
                }
            };
            let cmd = g.command();
            e.send(&cmd);
            let Some(got) = get_dump(&mut e) else {
                if !e.is_alive() {
                    out::violation(
                        "C08",
                        "engine-died-on-valid-position",
                        format!("engine died on a valid position command: {cmd}; stderr: {:?}", e.stderr_lines(from)),
                        replay_json("C08", idx, &e),
                    );
                } else {
                    out::inconclusive("C08: no dump line received", 1);
                }
                return;
            };
            out::count("C08.evaluations", 1);
            if !g.moves.is_empty() {
                out::distinct("C08.nontrivial", &cmd);
            }
            if out::want_sample() && idx % 101 == 3 {
                out::sample(format!("C08 session {idx} step {step}: '{cmd}' -> dump matches ({} {} {} {})", want.turn, want.rights, want.ep, want.full));
            }
            if let Some((field, d)) = dump_diff(&got, &want) {
                let unchanged = dump_diff(&got, &current).is_none();
                let field = if unchanged { "refused-or-ignored".to_string() } else { field };
                let special = g
                    .moves
                    .iter()
                    .filter_map(|m| if m.castle { Some("castle") } else if m.ep { Some("ep") } else if m.promo != 0 { Some("promotion") } else { None })
                    .next()
                    .unwrap_or("plain");
                out::violation(
                    "C08",
                    &format!("position-{field}"),
                    format!("after '{cmd}' the session position differs from the described game ({special}): {d}"),
                    replay_json("C08", idx, &e),
                );
            }
            current = got;
        } else {
            // corrupt exactly one move (or append one) -> the whole command must be refused
            let mut strs: Vec<String> = g.moves.iter().map(Mv::uci).collect();
            let at = rng.below(strs.len() as u64 + 1) as usize;
            let (bad, class) = corrupt_move(&mut rng, &g.positions[at.min(g.positions.len() - 1)]);
            if at < strs.len() {
                strs[at] = bad.clone();
            } else {
                strs.push(bad.clone());
            }
            let mut cmd = if g.is_startpos { "position startpos".to_string() } else { format!("position fen {}", g.start_fen) };
            cmd.push_str(" moves ");
            cmd.push_str(&strs.join(" "));
            e.send(&cmd);
            let Some(got) = get_dump(&mut e) else {
                if !e.is_alive() {
                    out::violation(
                        "C08",
                        &format!("engine-died-on-bad-move-{class}"),
                        format!("engine died on '{cmd}'; stderr: {:?}", e.stderr_lines(from)),
                        replay_json("C08", idx, &e),
                    );
                } else {
                    out::inconclusive("C08: no dump line received", 1);
                }
                return;
            };
            out::count("C08.evaluations", 1);
            out::count(&format!("C08.corrupt.{class}"), 1);
            out::distinct("C08.nontrivial", &cmd);
            if out::want_sample() && idx % 89 == 5 {
                out::sample(format!("C08 session {idx} step {step}: corrupt ({class}) '{cmd}' -> refused, position unchanged"));
            }
            if let Some((field, d)) = dump_diff(&got, &current) {
                // what did it become? accepted the bad move, or a partial application?
                out::violation(
                    "C08",
                    &format!("bad-move-{class}-changed-{field}"),
                    format!("'{cmd}' contains the illegal move '{bad}' at index {at} ({class}) but the session position changed: {d}"),
                    replay_json("C08", idx, &e),
                );
                current = got;
            }
        }
    }
    e.send("quit");
    let _ = e.wait_exit(1_000);
}

// ---------------------------------------------------------------------------
// C09 + C14 (the same searches are observed by both; each property reports its own clauses)
// ---------------------------------------------------------------------------

#[derive(Clone, Debug, Default)]
pub struct Limits {
    pub depth: Option<u64>,
    pub nodes: Option<u64>,
    pub movetime: Option<u64>,
    pub wtime: Option<u64>,
    pub btime: Option<u64>,
    pub winc: Option<u64>,
    pub binc: Option<u64>,
    pub infinite: bool,
}

impl Limits {
    pub fn command(&self) -> String {
        let mut s = "go".to_string();
        if self.infinite {
            s.push_str(" infinite");
            return s;
        }
        for (k, v) in [
            ("wtime", self.wtime),
            ("btime", self.btime),
            ("winc", self.winc),
            ("binc", self.binc),
            ("depth", self.depth),
            ("nodes", self.nodes),
            ("movetime", self.movetime),
        ] {
            if let Some(v) = v {
                s.push_str(&format!(" {k} {v}"));
            }
        }
        s
    }
    /// The time the limits allow the side to move, if they bound it at all.
    pub fn time_bound_ms(&self, stm: u8) -> Option<u64> {
        if self.infinite {
            return None;
        }
        let mut b: Option<u64> = self.movetime;
        let (t, i) = if stm == 0 { (self.wtime, self.winc) } else { (self.btime, self.binc) };
        if t.is_some() || i.is_some() {
            let c = t.unwrap_or(0) + i.unwrap_or(0);
            b = Some(b.map_or(c, |x| x.min(c)));
        }
        b
    }
    pub fn has_count_limit(&self) -> bool {
        !self.infinite && (self.depth.is_some() || self.nodes.is_some())
    }
    pub fn shape(&self) -> String {
        let mut v = Vec::new();
        if self.infinite {
            v.push("infinite".to_string());
        }
        for (k, x) in [
            ("depth", self.depth),
            ("nodes", self.nodes),
            ("movetime", self.movetime),
            ("wtime", self.wtime),
            ("btime", self.btime),
            ("winc", self.winc),
            ("binc", self.binc),
        ] {
            if let Some(x) = x {
                let class = match x {
                    0 => "0",
                    1..=9 => "tiny",
                    10..=999 => "small",
                    _ => "big",
                };
                v.push(format!("{k}:{class}"));
            }
        }
        v.join("+")
    }
}

fn random_limits(rng: &mut Rng) -> Limits {
    let mut l = Limits::default();
    let pick = |rng: &mut Rng, v: &[u64]| Some(*rng.pick(v));
    match rng.below(13) {
        0 => l.depth = Some(1 + rng.below(4)),
        1 => l.nodes = pick(rng, &[1, 2, 3, 5, 10, 20, 50, 100, 300, 1000, 5000, 20000, 50000, 200_000, 1_000_000, 3_000_000]),
        2 => l.movetime = pick(rng, &[0, 1, 2, 5, 10, 20, 50, 100, 300]),
        3 => {
            // clocks in every mix, including only the opponent's
            let vals = [0u64, 1, 10, 100, 3000];
            if rng.chance(2, 3) {
                l.wtime = pick(rng, &vals);
            }
            if rng.chance(2, 3) {
                l.btime = pick(rng, &vals);
            }
            if rng.chance(1, 3) {
                l.winc = pick(rng, &[0, 1, 10, 100]);
            }
            if rng.chance(1, 3) {
                l.binc = pick(rng, &[0, 1, 10, 100]);
            }
            if l.wtime.is_none() && l.btime.is_none() && l.winc.is_none() && l.binc.is_none() {
                l.wtime = Some(10);
                l.btime = Some(10);
            }
        }
        4 => {
            l.wtime = pick(rng, &[0, 1, 10, 100, 3000]);
            l.btime = pick(rng, &[0, 1, 10, 100, 3000]);
            l.winc = pick(rng, &[0, 1, 10, 100]);
            l.binc = pick(rng, &[0, 1, 10, 100]);
        }
        5 => l.infinite = true,
        6 => {
            l.depth = Some(1 + rng.below(4));
            l.nodes = pick(rng, &[1, 10, 100, 1000, 20000]);
        }
        7 => {
            l.depth = Some(1 + rng.below(5));
            l.movetime = pick(rng, &[0, 1, 10, 100]);
        }
        8 => {
            l.nodes = pick(rng, &[1, 10, 100, 1000, 20000]);
            l.movetime = pick(rng, &[0, 1, 10, 100]);
        }
        9 => {
            l.depth = Some(1 + rng.below(4));
            l.nodes = pick(rng, &[5, 50, 500, 5000]);
            l.wtime = pick(rng, &[1, 100, 3000]);
            l.btime = pick(rng, &[1, 100, 3000]);
        }
        10 => {
            // only one side's clock
            if rng.chance(1, 2) {
                l.wtime = pick(rng, &[0, 1, 10, 100, 3000]);
            } else {
                l.btime = pick(rng, &[0, 1, 10, 100, 3000]);
            }
        }
        11 => {
            // a clock together with a node budget or a movetime that would take far longer than
            // the clock allows: the earliest limit ends the search
            let c = *rng.pick(&[20u64, 100, 400, 2000]);
            l.wtime = Some(c);
            l.btime = Some(c);
            if rng.chance(1, 2) {
                l.nodes = pick(rng, &[30_000_000, 400_000_000, 4_000_000_000]);
            } else {
                l.movetime = pick(rng, &[20_000, 600_000]);
            }
        }
        _ => l.depth = Some(1 + rng.below(3)),
    }
    l
}

pub struct GoOutcome {
    pub from: usize,
    pub bestmove: Option<String>,
    pub bestmove_lines: usize,
    pub latency_ms: u64,
    /// time from the moment the bound started counting (go, or stop when the limits gave none)
    pub over_bound_ms: Option<u64>,
    pub infos: Vec<String>,
    pub stderr: Vec<String>,
    pub alive: bool,
    pub stop_sent: bool,
    /// a count-limited search was still running when the watchdog fired and had to be stopped
    pub watchdog_stop: bool,
    /// ... and at that moment the engine was using no CPU at all
    pub idle_without_answer: bool,
    /// a time-bounded search had not answered when the watchdog fired and was sent a stop
    pub late_stop: bool,
}

/// Sends `go`, waits for the answer according to the limits, observes the settle window.
pub fn do_go(e: &mut Engine, l: &Limits, stm: u8) -> GoOutcome {
    e.skip_to_end();
    let from = e.log.len();
    let t_go = std::time::Instant::now();
    e.send(&l.command());
    let bound = l.time_bound_ms(stm);
    let mut stop_sent = false;
    let mut t_bound_start = t_go;
    let first_wait = match (bound, l.has_count_limit()) {
        (Some(b), _) => b + ALLOWANCE_MS + 2_000,
        (None, true) => WATCHDOG_MS,
        (None, false) => 300,
    };
    let mut idx = e.wait_out_unless_panic(first_wait, "bestmove", from);
    let mut watchdog_stop = false;
    let mut idle_without_answer = false;
    if idx.is_none() && bound.is_none() && l.has_count_limit() && e.is_alive() && !e.log[from..].iter().any(|x| x.src == Src::Err && x.line.contains("panicked at")) {
        // a depth / node limit does not bound the time; the watchdog has fired, which decides
        // nothing by itself. But an engine that is neither computing nor answering has nothing
        // left to wait for: that is a missing answer, not a long search
        idle_without_answer = e.is_idle_for(500).unwrap_or(false) && e.count_out(from, "bestmove") == 0;
        // ask the search to stop: an answer now means it was simply still busy (or idly waiting)
        e.send("stop");
        watchdog_stop = true;
        idx = e.wait_out_unless_panic(ALLOWANCE_MS + 3_000, "bestmove", from);
    }
    let mut late_stop = false;
    if idx.is_none() && bound.is_some() && e.is_alive() && !e.log[from..].iter().any(|x| x.src == Src::Err && x.line.contains("panicked at")) {
        // a time-bounded search has not answered within bound + allowance + 2 s. On a loaded
        // machine that alone proves nothing. Asleep without an answer = a missing answer; busy =
        // ask it to stop and see: an answer that comes now was late (judged by re-running alone)
        if e.is_idle_for(500).unwrap_or(false) {
            e.settle(1_500); // the answer may be in the pipe while this reader was starved
            idle_without_answer = e.count_out(from, "bestmove") == 0 && e.all_threads_sleeping().unwrap_or(false);
        }
        e.send("stop");
        late_stop = true;
        idx = e.wait_out_unless_panic(10_000, "bestmove", from);
    }
    if idx.is_none() && bound.is_none() && !l.has_count_limit() {
        // nothing bounds this search: a conformant GUI ends it with stop
        e.send("stop");
        stop_sent = true;
        t_bound_start = std::time::Instant::now();
        idx = e.wait_out_unless_panic(ALLOWANCE_MS + 3_000, "bestmove", from);
    }
    let latency_ms = t_go.elapsed().as_millis() as u64;
    let since_bound = t_bound_start.elapsed().as_millis() as u64;
    e.settle(120);
    let bestmove = idx.map(|i| e.log[i].line.split_whitespace().nth(1).unwrap_or("").to_string());
    let allowed = if stop_sent { 0 } else { bound.unwrap_or(u64::MAX / 4) };
    let over = if idx.is_some() && (bound.is_some() || stop_sent) && since_bound > allowed + ALLOWANCE_MS {
        Some(since_bound - allowed)
    } else {
        None
    };
    GoOutcome {
        from,
        bestmove,
        bestmove_lines: e.count_out(from, "bestmove"),
        latency_ms,
        over_bound_ms: over,
        infos: e.log[from..].iter().filter(|x| x.src == Src::Out && x.line.starts_with("info")).map(|x| x.line.clone()).collect(),
        stderr: e.stderr_lines(from),
        alive: e.is_alive(),
        stop_sent,
        watchdog_stop,
        idle_without_answer,
        late_stop,
    }
}

pub fn run_c09(ctx: &Ctx, prop: &str) -> Result<(), String> {
    if prop == "C09" {
        let _ = ADVERTISED.set(learn_options(ctx));
    }
    let seeds: Vec<String> = corpus::all_seeds()?;
    let n = match (prop, ctx.tier.as_str()) {
        ("C09", "thorough") => 12_000,
        ("C09", _) => 600,
        (_, "thorough") => 20_000,
        _ => 1_500,
    };
    let p = prop.to_string();
    pool(ctx, n, |ctx, idx| go_session(ctx, idx, &seeds, &p));
    Ok(())
}

fn go_session(ctx: &Ctx, idx: usize, seeds: &[String], prop: &str) {
    let mut rng = Rng::derive(ctx.seed, if prop == "C09" { 0xC09_0000 } else { 0xC14_0000 } + idx as u64);
    // one session in four runs with a short sleep at one labelled point of the engine (between the
    // bestmove line and the end of the search thread, or just after the thread was started), so
    // that the GUI's next command meets the engine in a state it otherwise passes in microseconds
    let mut env: Vec<(String, String)> = Vec::new();
    if idx % 4 == 3 {
        let point = ["search.post_bestmove=sleep:200", "search.exit=sleep:200", "search.pre_bestmove=sleep:8", "uci.go.spawned=sleep:5", "search.enter=sleep:8", "search.iter_done=sleep:3"][(idx / 4) % 6];
        env.push(("RCE_VERIF_SCHED".to_string(), point.to_string()));
        out::count("C09.sessions_with_a_widened_window", 1);
    }
    let Some(mut e) = spawn(ctx, &env) else { return };
    let mut g = random_game(&mut rng, seeds, 30, true);
    if idx % 6 == 5 {
        // tense full-board positions (long capture chains), at most two moves in
        let mut tense = corpus::tense_seeds();
        tense.extend(corpus::queen_rich_seeds());
        let fen = rng.pick(&tense).clone();
        let start = Game {
            start_fen: fen.clone(),
            is_startpos: false,
            moves: vec![],
            positions: vec![Pos::from_fen(&fen).unwrap()],
        };
        let n_more = rng.below(3);
        g = extend_game(&mut rng, &start, n_more);
        if g.last().legal_moves().is_empty() {
            g = start;
        }
    }
    let tiny_tree = prop == "C09" && idx % 8 == 7;
    if tiny_tree {
        // positions whose whole tree is tiny (the search runs out of depth, not out of budget)
        let tiny = [
            "8/8/8/3k4/8/3K4/8/8 w - - 0 1",
            "8/8/8/3k4/8/3K4/8/8 b - - 0 1",
            "6k1/5ppp/8/8/8/8/8/R5K1 w - - 0 1",
            "6k1/8/8/8/8/8/5PPP/r5K1 w - - 0 1",
            "7k/5Q2/6K1/8/8/8/8/8 w - - 0 1",
            "k7/8/1K6/8/8/8/8/7R w - - 0 1",
            "8/8/8/8/8/5k2/4p3/4K3 w - - 0 1",
            "k7/P7/K7/8/8/8/8/8 b - - 0 1",
            // the opponent's army is frozen: the reply to every root move has no pseudo-legal move
            "4brkb/3p1pbp/3P1p1p/5P1P/8/8/4K3/1N6 w - - 0 1",
            "3k4/6n1/8/8/5p1p/3p1P1P/3P1PBP/4BRKB b - - 0 1",
            "4brkb/3p1pbp/3P1p1p/5P1P/8/p7/8/1K6 w - - 0 1",
            "8/8/8/8/8/8/6k1/4K2R b K - 0 1",
        ];
        let fen = (*rng.pick(&tiny)).to_string();
        g = Game {
            start_fen: fen.clone(),
            is_startpos: false,
            moves: vec![],
            positions: vec![Pos::from_fen(&fen).unwrap()],
        };
        if g.last().legal_moves().is_empty() {
            return;
        }
    }
    if prop == "C09" && idx % 4 == 1 {
        // configuration first: one to three of the options the engine itself advertises, at values
        // inside their declared ranges (a setting stays in force for every go of the session)
        let adv: Vec<&String> = ADVERTISED.get().map_or(Vec::new(), |v| v.iter().collect());
        let in_range: Vec<&&String> = adv.iter().filter(|l| !l.ends_with(" -1") && !l.ends_with("5001") && !l.ends_with(" 0") || l.contains("Move Overhead value 0")).collect();
        if !in_range.is_empty() {
            for _ in 0..(1 + rng.below(3)) {
                e.send(rng.pick(&in_range));
            }
            // mid-range values of spin options as well
            for l in &adv {
                if let Some((head, _)) = l.rsplit_once(" value ") {
                    if head.contains("Move Overhead") && rng.chance(1, 2) {
                        e.send(&format!("{head} value {}", rng.pick(&[20u64, 50, 100, 200, 500, 1000, 2500])));
                        break;
                    }
                }
            }
            out::count("C09.sessions_with_options_set_first", 1);
        }
    }
    if prop == "C09" && idx % 10 == 9 {
        // the session begins with a go on a finished game (mate or stalemate on the board); what
        // the engine answers there is not judged, but every go after it must be served as usual
        let fen = *rng.pick(&["7k/5K2/6Q1/8/8/8/8/8 b - - 0 1", "R5k1/5ppp/8/8/8/8/5PPP/6K1 b - - 0 1", "7k/5Q2/6K1/8/8/8/8/8 b - - 0 1", "K1k5/P7/8/8/8/8/8/8 w - - 0 1"]);
        e.send(&format!("position fen {fen}"));
        e.send(*rng.pick(&["go depth 2", "go movetime 10", "go nodes 50", "go wtime 100 btime 100"]));
        // its answer must be in before the session proper starts, or it would be taken for the
        // answer to the next go (with a sleep at every iteration end it can take a second)
        if e.wait_out(6_000, "bestmove").is_none() {
            e.send("stop");
            if e.wait_out(3_000, "bestmove").is_none() {
                out::inconclusive("C09 session: the go on a finished game was not answered (not judged; session abandoned)", 1);
                return;
            }
        }
        out::count("C09.sessions_starting_with_a_go_on_a_finished_game", 1);
    }
    if prop == "C14" && idx < 2 {
        // the big-cache sessions start from a full middlegame position of the bench list (a sparse
        // position revisits the same few thousand positions and never fills the cache)
        let fens = corpus::bench_fens();
        let rich: Vec<&String> = fens.iter().filter(|f| Pos::from_fen(f).map(|p| p.sq.iter().filter(|&&x| x != 0).count() >= 24 && !p.legal_moves().is_empty()).unwrap_or(false)).collect();
        if !rich.is_empty() {
            let fen = rich[(idx * 5 + ctx.seed as usize) % rich.len()].clone();
            g = Game {
                start_fen: fen.clone(),
                is_startpos: false,
                moves: vec![],
                positions: vec![Pos::from_fen(&fen).unwrap()],
            };
        }
    }
    e.send(&g.command());
    if prop == "C14" && idx < 2 {
        // a long-lived process with a very large cache: a multi-million-node search first, then
        // ordinary depth-limited searches, whose reports must be as complete as in a fresh process
        let p0 = g.last().clone();
        let big = Limits { nodes: Some(6_000_000), ..Limits::default() };
        let o = do_go(&mut e, &big, p0.stm);
        out::count("C14.big_cache_sessions", 1);
        c14_verdict(idx, &e, &o, &big, &p0, &format!("'{}' then '{}'", g.command(), big.command()));
        // ... and three more on other full positions: only full-width nodes are cached, so it takes
        // some 15-20 million nodes over different positions to get well past a million entries
        let fens = corpus::bench_fens();
        for k in 1..4usize {
            let fen = &fens[(idx * 5 + k * 11 + ctx.seed as usize) % fens.len().max(1)];
            let Ok(pk) = Pos::from_fen(fen) else { continue };
            if pk.legal_moves().is_empty() {
                continue;
            }
            e.send(&format!("position fen {fen}"));
            let more = Limits { nodes: Some(5_000_000), ..Limits::default() };
            let o = do_go(&mut e, &more, pk.stm);
            c14_verdict(idx, &e, &o, &more, &pk, &format!("'position fen {fen}' then '{}' (big-cache session)", more.command()));
        }
        for d in [3u64, 1, 4] {
            let g2 = random_game(&mut rng, seeds, 10, true);
            e.send(&g2.command());
            let l = Limits { depth: Some(d), ..Limits::default() };
            let p2 = g2.last().clone();
            let o = do_go(&mut e, &l, p2.stm);
            c14_verdict(idx, &e, &o, &l, &p2, &format!("(after a 6,000,000-node search in the same process) '{}' then '{}'", g2.command(), l.command()));
        }
        e.send("quit");
        let _ = e.wait_exit(1_000);
        return;
    }
    if prop == "C14" && idx % 5 == 4 {
        c14_isready_storm(ctx, idx, &mut e, &g, &mut rng);
        return;
    }
    let gos = 1 + rng.below(6);
    for k in 0..gos {
        if prop == "C09" && rng.chance(1, 12) {
            // a position is set up but not searched, then a new game is announced and searched
            // without a position command: the go is about the start position
            let other = random_game(&mut rng, seeds, 12, true);
            e.send(&other.command());
            e.send("ucinewgame");
            g = Game {
                start_fen: START_FEN.to_string(),
                is_startpos: true,
                moves: vec![],
                positions: vec![Pos::startpos()],
            };
            out::count("C09.go_after_ucinewgame_without_position", 1);
        }
        let p = g.last().clone();
        let legal: Vec<String> = p.legal_moves().iter().map(Mv::uci).collect();
        if legal.is_empty() {
            break;
        }
        let l = if prop == "C14" {
            // C14: mostly plain depth limits (the 'reports every depth up to N' clause), some others
            let mut l = Limits::default();
            match rng.below(6) {
                0..=3 => l.depth = Some(1 + rng.below(if p.sq.iter().filter(|&&x| x != 0).count() <= 8 { 6 } else { 4 })),
                4 => l.nodes = Some(*rng.pick(&[200, 2000, 20000, 50000])),
                _ => l.movetime = Some(*rng.pick(&[20, 60, 150])),
            }
            l
        } else if tiny_tree {
            let mut l = Limits::default();
            // only trees that really run out (bare kings) get a bare depth limit
            let has_pawn = p.sq.iter().filter(|&&x| x != 0).count() > 2;
            let pickn = if has_pawn { [0u64, 2, 2, 0, 4][rng.below(5) as usize] } else { rng.below(5) };
            match pickn {
                0 => l.nodes = Some(*rng.pick(&[200_000, 1_000_000, 3_000_000])),
                1 => l.depth = Some(*rng.pick(&[30, 100, 250])),
                2 => l.movetime = Some(*rng.pick(&[50, 300])),
                3 => {
                    l.nodes = Some(*rng.pick(&[200_000, 3_000_000]));
                    l.depth = Some(200);
                }
                _ => l.infinite = true,
            }
            l
        } else if k == 0 && rng.chance(1, 2) {
            let mut l = Limits::default();
            match rng.below(3) {
                0 => l.depth = Some(3 + rng.below(2)),
                1 => l.nodes = Some(*rng.pick(&[5_000, 20_000, 50_000])),
                _ => l.movetime = Some(*rng.pick(&[50, 100, 200])),
            }
            l
        } else {
            random_limits(&mut rng)
        };
        // where capture sequences explode (many queens) a depth or node limit bounds nothing that a
        // test could wait for: only time-based limits are used there
        let mut l = l;
        let queens = p.sq.iter().filter(|&&x| oracle::kind(x) == oracle::Q).count();
        if queens >= 8 && l.time_bound_ms(p.stm).is_none() && !l.infinite {
            l = Limits::default();
            match rng.below(3) {
                0 => l.movetime = Some(*rng.pick(&[0, 5, 50, 100, 300])),
                1 => {
                    l.wtime = Some(*rng.pick(&[10, 100, 3000]));
                    l.btime = Some(*rng.pick(&[10, 100, 3000]));
                }
                _ => l.infinite = true,
            }
        }
        let o = do_go(&mut e, &l, p.stm);
        let cmd = l.command();
        let ctxt = format!("'{}' then '{cmd}' (go #{} of the session)", g.command(), k + 1);
        if prop == "C09" {
            c09_verdict(ctx, idx, &mut e, &o, &l, &p, &legal, &ctxt, &g);
        } else {
            c14_verdict(idx, &e, &o, &l, &p, &ctxt);
        }
        if !o.alive {
            return;
        }
        // liveness after the answer
        e.send("isready");
        if e.wait_out(READY_TIMEOUT_MS, "readyok").is_none() && prop == "C09" {
            out::violation(
                "C09",
                "no-readyok-after-go",
                format!("no readyok after {ctxt}"),
                replay_json("C09", idx, &e),
            );
            return;
        }
        let Some(bm) = o.bestmove.clone() else {
            // no answer: the search thread may still be running or dead; start a fresh engine
            return;
        };
        // how the game goes on before the next go: the engine's move and a reply (as in play), the
        // engine's move alone, two moves that are NOT the engine's choice (the GUI went another way;
        // the reply prefers checks), or no move at all (same position searched again)
        let Some(engine_move) = p.find_uci(&bm) else { break };
        let mut steps: Vec<Mv> = Vec::new();
        let pick_reply = |rng: &mut Rng, q: &Pos| -> Option<Mv> {
            let lm = q.legal_moves();
            if lm.is_empty() {
                return None;
            }
            let checks: Vec<Mv> = lm.iter().filter(|m| { let r = q.make(m); r.in_check(r.stm) }).copied().collect();
            if !checks.is_empty() && rng.chance(2, 3) {
                Some(*rng.pick(&checks))
            } else {
                Some(*rng.pick(&lm))
            }
        };
        match rng.below(10) {
            0..=3 => {
                steps.push(engine_move);
                if let Some(r) = pick_reply(&mut rng, &p.make(&engine_move)) {
                    steps.push(r);
                }
            }
            4..=5 => steps.push(engine_move),
            6..=8 => {
                let lm = p.legal_moves();
                let other: Vec<Mv> = lm.iter().filter(|m| m.uci() != bm).copied().collect();
                let m1 = if other.is_empty() { engine_move } else { *rng.pick(&other) };
                steps.push(m1);
                if let Some(r) = pick_reply(&mut rng, &p.make(&m1)) {
                    steps.push(r);
                }
            }
            _ => {}
        }
        let mut ok = true;
        for m in steps {
            let np = g.last().make(&m);
            if np.legal_moves().is_empty() || np.half >= 98 {
                ok = false;
                break;
            }
            g.moves.push(m);
            g.positions.push(np);
        }
        if !ok {
            break;
        }
        e.send(&g.command());
    }
    e.send("quit");
    let _ = e.wait_exit(1_000);
}

#[allow(clippy::too_many_arguments)]
fn c09_verdict(ctx: &Ctx, idx: usize, e: &mut Engine, o: &GoOutcome, l: &Limits, p: &Pos, legal: &[String], ctxt: &str, g: &Game) {
    out::count("C09.evaluations", 1);
    out::count(&format!("C09.shape.{}", l.shape()), 1);
    out::distinct("C09.nontrivial", &format!("{}|{}", p.fen4(), l.command()));
    let in_check = p.in_check(p.stm);
    if out::want_sample() && idx % 37 == 2 {
        out::sample(format!("C09 {ctxt}: bestmove {:?} after {} ms, {} bestmove line(s)", o.bestmove, o.latency_ms, o.bestmove_lines));
    }
    let panic_line = o.stderr.iter().find(|s| s.contains("panicked")).cloned();
    if o.idle_without_answer {
        out::violation(
            "C09",
            "no-bestmove[idle]",
            format!("no bestmove for {ctxt} after {} ms although the engine was idle (no CPU used for 500 ms): nothing is being searched and nothing was answered{}", o.latency_ms, if o.bestmove.is_some() { "; a bestmove came only after stop" } else { "" }),
            replay_json("C09", idx, e),
        );
    } else if o.watchdog_stop && o.bestmove.is_some() {
        out::note(format!("watchdog fired on a count-limited search: {ctxt}"));
        out::inconclusive("C09 depth/node-limited search still running when the watchdog fired (answered after stop; the limits do not bound its time)", 1);
    }
    // a verdict that rests on elapsed time alone (no answer yet, engine busy, no panic) is only a
    // verdict if the same go, alone in a fresh engine, fails the same way three times out of three
    let time_only = o.bestmove.is_none() && panic_line.is_none() && !o.idle_without_answer && o.alive;
    if time_only {
        let mut reproduced = 0;
        for _ in 0..3 {
            if let Some(mut e2) = spawn(ctx, &[]) {
                e2.send(&g.command());
                let o2 = do_go(&mut e2, l, p.stm);
                if o2.bestmove.is_none() {
                    reproduced += 1;
                }
                e2.kill();
            }
        }
        if reproduced < 3 {
            out::inconclusive("C09 missing answer of a busy engine not reproduced when re-run alone (machine load)", 1);
            return;
        }
    }
    match &o.bestmove {
        None => {
            let why = match &panic_line {
                Some(pl) => format!("search thread panicked: {pl}"),
                None => "no panic message".to_string(),
            };
            let class = match &panic_line {
                Some(pl) => pl.rsplit("panicked at ").next().unwrap_or("panic").trim_end_matches(':').to_string(),
                None => "silent".to_string(),
            };
            out::violation(
                "C09",
                &format!("no-bestmove[{class}]"),
                format!("no bestmove for {ctxt} within the watchdog ({} ms){}{}; {why}", o.latency_ms, if o.stop_sent || o.late_stop { " even after stop" } else { "" }, if time_only { ", reproduced 3/3 alone" } else { "" }),
                replay_json("C09", idx, e),
            );
        }
        Some(bm) => {
            if o.bestmove_lines != 1 {
                out::violation(
                    "C09",
                    "bestmove-count",
                    format!("{} bestmove lines for one go: {ctxt}", o.bestmove_lines),
                    replay_json("C09", idx, e),
                );
            }
            if !legal.contains(bm) {
                out::violation(
                    "C09",
                    "illegal-bestmove",
                    format!("bestmove {bm} is not legal in '{}' ({ctxt}){}", p.fen(), if in_check { " [side to move is in check]" } else { "" }),
                    replay_json("C09", idx, e),
                );
            }
            if let Some(over) = o.over_bound_ms {
                // re-run this go alone, three times, on an idle engine: only a reproducible overrun counts
                let mut reproduced = 0;
                for _ in 0..3 {
                    if let Some(mut e2) = spawn(ctx, &[]) {
                        e2.send(&g.command());
                        let o2 = do_go(&mut e2, l, p.stm);
                        if o2.over_bound_ms.is_some() || o2.bestmove.is_none() {
                            reproduced += 1;
                        }
                    }
                }
                if reproduced == 3 {
                    out::violation(
                        "C09",
                        "late-bestmove",
                        format!("bestmove arrived {over} ms after the limits' bound started (allowance {ALLOWANCE_MS} ms), reproduced 3/3 alone: {ctxt}"),
                        replay_json("C09", idx, e),
                    );
                } else {
                    out::inconclusive("C09 overrun not reproduced when re-run alone (machine load)", 1);
                }
            }
        }
    }
    if legal.len() == 1 || in_check || l.shape().contains("tiny") || l.shape().contains(":0") {
        out::count("C09.hostile_cases", 1);
    }
}

// ---------------------------------------------------------------------------
// C14: info lines
// ---------------------------------------------------------------------------

pub struct Info {
    pub depth: u64,
    pub seldepth: Option<u64>,
    pub nodes: Option<u64>,
    pub score_kind: String,
    pub score: i64,
    pub pv: Vec<String>,
}

/// Strict reader of one UCI info line as this engine should produce it.
pub fn parse_info(line: &str) -> Result<Info, String> {
    let t: Vec<&str> = line.split_whitespace().collect();
    if t.first() != Some(&"info") {
        return Err("does not start with 'info'".into());
    }
    let mut i = 1;
    let mut depth = None;
    let mut seldepth = None;
    let mut nodes = None;
    let mut score: Option<(String, i64)> = None;
    let mut pv: Option<Vec<String>> = None;
    let num = |s: Option<&&str>, what: &str| -> Result<u64, String> {
        s.ok_or_else(|| format!("'{what}' without a value"))?
            .parse::<u64>()
            .map_err(|_| format!("'{what}' value '{}' is not a non-negative integer", s.unwrap()))
    };
    while i < t.len() {
        match t[i] {
            "depth" => {
                depth = Some(num(t.get(i + 1), "depth")?);
                i += 2;
            }
            "seldepth" => {
                seldepth = Some(num(t.get(i + 1), "seldepth")?);
                i += 2;
            }
            "nodes" => {
                nodes = Some(num(t.get(i + 1), "nodes")?);
                i += 2;
            }
            "time" | "nps" | "hashfull" | "multipv" | "tbhits" | "currmovenumber" | "cpuload" => {
                num(t.get(i + 1), t[i])?;
                i += 2;
            }
            "score" => {
                let kind = *t.get(i + 1).ok_or("'score' without a kind")?;
                if kind != "cp" && kind != "mate" {
                    return Err(format!("score kind '{kind}' is neither cp nor mate"));
                }
                let v: i64 = t
                    .get(i + 2)
                    .ok_or("score without a value")?
                    .parse()
                    .map_err(|_| format!("score value '{}' is not an integer", t[i + 2]))?;
                if kind == "mate" && v == 0 {
                    return Err("'score mate 0'".into());
                }
                if kind == "cp" && v.abs() > 32_767 {
                    return Err(format!("score cp {v} out of range"));
                }
                score = Some((kind.to_string(), v));
                i += 3;
            }
            "pv" => {
                let moves: Vec<String> = t[i + 1..].iter().map(|s| (*s).to_string()).collect();
                for m in &moves {
                    let b = m.as_bytes();
                    let ok = (b.len() == 4 || b.len() == 5)
                        && (b'a'..=b'h').contains(&b[0])
                        && (b'1'..=b'8').contains(&b[1])
                        && (b'a'..=b'h').contains(&b[2])
                        && (b'1'..=b'8').contains(&b[3])
                        && (b.len() == 4 || b"qrbn".contains(&b[4]));
                    if !ok {
                        return Err(format!("pv token '{m}' is not a move in coordinate notation"));
                    }
                }
                pv = Some(moves);
                i = t.len();
            }
            "string" => {
                i = t.len();
            }
            other => return Err(format!("unknown token '{other}'")),
        }
    }
    let depth = depth.ok_or("no depth")?;
    if depth == 0 || depth > 255 {
        return Err(format!("depth {depth} out of range"));
    }
    if let Some(s) = seldepth {
        if s > 255 {
            return Err(format!("seldepth {s} out of range"));
        }
    }
    let (score_kind, score) = score.ok_or("no score")?;
    let pv = pv.ok_or("no pv")?;
    if pv.is_empty() {
        return Err("empty pv".into());
    }
    Ok(Info {
        depth,
        seldepth,
        nodes,
        score_kind,
        score,
        pv,
    })
}

fn c14_verdict(idx: usize, e: &Engine, o: &GoOutcome, l: &Limits, p: &Pos, ctxt: &str) {
    out::count("C14.evaluations", 1);
    if !o.infos.is_empty() {
        out::distinct("C14.nontrivial", &format!("{}|{}", p.fen4(), l.command()));
    }
    let depth_only = l.depth.is_some() && l.nodes.is_none() && l.movetime.is_none() && l.wtime.is_none() && l.btime.is_none() && l.winc.is_none() && l.binc.is_none() && !l.infinite;
    if out::want_sample() && idx % 29 == 4 {
        out::sample(format!("C14 {ctxt}: info lines {:?}", o.infos));
    }
    let mut expect = 1;
    let mut last_nodes = 0;
    for line in &o.infos {
        let info = match parse_info(line) {
            Ok(i) => i,
            Err(why) => {
                out::violation(
                    "C14",
                    &format!("syntax[{}]", why.split('\'').next().unwrap_or("").trim()),
                    format!("malformed info line '{line}': {why} ({ctxt})"),
                    replay_json("C14", idx, e),
                );
                continue;
            }
        };
        if info.depth != expect {
            out::violation(
                "C14",
                if info.depth < expect { "depth-repeat" } else { "depth-gap" },
                format!("info lines report depth {} where depth {expect} was due ({ctxt}); lines: {:?}", info.depth, o.infos),
                replay_json("C14", idx, e),
            );
        }
        expect = info.depth + 1;
        if let Some(n) = info.nodes {
            if n < last_nodes {
                out::violation(
                    "C14",
                    "nodes-decrease",
                    format!("node count goes backwards ({last_nodes} -> {n}) in '{line}' ({ctxt})"),
                    replay_json("C14", idx, e),
                );
            }
            last_nodes = n;
        }
        // the PV must be a sequence of legal moves from the searched position
        let mut cur = p.clone();
        for (k, ms) in info.pv.iter().enumerate() {
            match cur.find_uci(ms) {
                Some(m) => cur = cur.make(&m),
                None => {
                    out::violation(
                        "C14",
                        "pv-illegal-move",
                        format!("pv move #{} '{ms}' of '{line}' is not legal in '{}' ({ctxt})", k + 1, cur.fen()),
                        replay_json("C14", idx, e),
                    );
                    break;
                }
            }
        }
        if info.score_kind == "mate" {
            out::count("C14.mate_scores", 1);
        }
    }
    if depth_only && o.bestmove.is_some() {
        let n = l.depth.unwrap();
        out::count("C14.depth_limited_searches", 1);
        out::count(&format!("C14.depth_limit.{n}"), 1);
        let reported = o.infos.iter().filter_map(|s| parse_info(s).ok()).map(|i| i.depth).max().unwrap_or(0);
        if reported < n && (o.watchdog_stop || o.stop_sent || o.late_stop) {
            // the watchdog had fired and the harness itself ended the search with stop: that it
            // did not reach its depth says nothing
            out::inconclusive("C14 depth-limited search ended by the harness's own stop after the watchdog (depth clause not judged)", 1);
        } else if reported < n {
            out::violation(
                "C14",
                &format!("depth-limit-not-reached[{n}]"),
                format!("'go depth {n}' reported depths up to {reported} only before bestmove ({ctxt}); info lines: {:?}", o.infos),
                replay_json("C14", idx, e),
            );
        } else if reported > n {
            out::violation(
                "C14",
                "depth-limit-exceeded",
                format!("'go depth {n}' reported depth {reported} ({ctxt})"),
                replay_json("C14", idx, e),
            );
        }
    } else if depth_only {
        out::inconclusive("C14 depth-limited search gave no bestmove (C09's business)", 1);
    }
    if !o.infos.is_empty() {
        out::count("C14.info_lines", o.infos.len() as u64);
    }
}

/// A burst of isready commands while the search is printing its progress: every line on stdout
/// must still be a whole, valid line (the two threads share one output stream).
fn c14_isready_storm(ctx: &Ctx, idx: usize, e: &mut Engine, g: &Game, rng: &mut Rng) {
    let _ = ctx;
    let p = g.last().clone();
    let n = 300 + rng.below(3_000) as usize;
    let depth = 3 + rng.below(3);
    e.skip_to_end();
    let from = e.log.len();
    e.send(&format!("go depth {depth}"));
    // one storm in three also announces new games while the search runs (every second line), one
    // in three mostly does that: whatever ucinewgame resets must not tear a report apart
    let kind = idx / 5 % 3;
    let mut burst = String::new();
    for k in 0..n {
        burst.push_str("isready\n");
        if kind == 1 && k % 2 == 0 {
            burst.push_str("ucinewgame\n");
        } else if kind == 2 {
            burst.push_str("ucinewgame\nucinewgame\nucinewgame\n");
        }
    }
    if kind > 0 {
        out::count("C14.storms_with_ucinewgame", 1);
    }
    e.send_raw(burst.as_bytes());
    let got_bm = e.wait_since(from, 30_000, |ev| ev.src == Src::Out && ev.line.starts_with("bestmove")).is_some();
    // all readyoks
    let deadline = std::time::Instant::now() + std::time::Duration::from_secs(20);
    loop {
        let ready = e.log[from..].iter().filter(|x| x.src == Src::Out && x.line.contains("readyok")).count();
        if ready >= n || std::time::Instant::now() > deadline || e.out_closed {
            break;
        }
        e.settle(50);
    }
    out::count("C14.evaluations", 1);
    out::count("C14.isready_storms", 1);
    out::distinct("C14.nontrivial", &format!("storm|{}|{depth}|{n}", p.fen4()));
    let mut readyok = 0;
    for ev in e.log[from..].iter().filter(|x| x.src == Src::Out) {
        let l = ev.line.as_str();
        if l == "readyok" {
            readyok += 1;
        } else if l.starts_with("info") {
            if let Err(why) = parse_info(l) {
                out::violation(
                    "C14",
                    "storm-info-malformed",
                    format!("while {n} isready commands were answered during 'go depth {depth}', the info line '{l}' is malformed: {why} (position '{}')", g.command()),
                    replay_json("C14", idx, e),
                );
            }
        } else if l.starts_with("bestmove ") && l.split_whitespace().count() == 2 {
        } else {
            out::violation(
                "C14",
                "storm-torn-line",
                format!("while {n} isready commands were answered during 'go depth {depth}', stdout carried the line '{}' which is neither an info line, readyok nor bestmove (position '{}')", l.chars().take(200).collect::<String>(), g.command()),
                replay_json("C14", idx, e),
            );
        }
    }
    if got_bm && readyok != n && !e.out_closed {
        out::violation(
            "C14",
            "storm-readyok-count",
            format!("{n} isready sent during 'go depth {depth}', {readyok} intact readyok lines received (position '{}')", g.command()),
            replay_json("C14", idx, e),
        );
    }
    e.send("quit");
    let _ = e.wait_exit(1_000);
}

// ---------------------------------------------------------------------------
// C15: hostile input
// ---------------------------------------------------------------------------

const KEYWORDS: &[&str] = &[
    "uci", "isready", "ucinewgame", "setoption", "name", "value", "position", "startpos", "fen", "moves", "go", "searchmoves", "ponder", "wtime", "btime", "winc", "binc",
    "movestogo", "depth", "nodes", "mate", "movetime", "infinite", "stop", "debug", "on", "off", "register", "ponderhit",
];
const JUNK_NUMBERS: &[&str] = &["0", "1", "-1", "18446744073709551615", "18446744073709551616", "10000000000000000000000000000000000000000", "3.5", "", "abc", "1e3", "0x10", "+5", "٣", "é", "-0"];

fn fuzz_line(rng: &mut Rng, seeds: &[String]) -> (String, bool) {
    // returns (line, starts_a_search)
    let well_formed: Vec<String> = {
        let g = random_game(rng, seeds, 6, false);
        vec![
            "uci".into(),
            "isready".into(),
            "ucinewgame".into(),
            "setoption name Hash value 1".into(),
            "setoption name Move Overhead value 10".into(),
            "setoption name Threads".into(),
            g.command(),
            format!("position fen {}", g.last().fen()),
            "position startpos moves e2e4 e7e5".into(),
            "go depth 2".into(),
            "go nodes 200".into(),
            "go movetime 10".into(),
            "go wtime 100 btime 100 winc 10 binc 10".into(),
            "go wtime 50 btime 50 movestogo 10".into(),
            "go infinite".into(),
            "go".into(),
            "go searchmoves e2e4 d2d4".into(),
            "go ponder".into(),
            "go mate 2".into(),
            "stop".into(),
            "debug on".into(),
            "ponderhit".into(),
        ]
    };
    // one line in five: configuration at the ends of its advertised range, or a go whose clocks
    // hold a few milliseconds (the arithmetic of the time manager at its lower end); half of
    // these stay as they are, so that they take effect and meet later lines of the session
    let mut gentle = false;
    let base = if rng.chance(1, 5) {
        gentle = rng.chance(1, 2);
        let adv = ADVERTISED.get().map_or(&[][..], Vec::as_slice);
        if !adv.is_empty() && rng.chance(1, 2) {
            rng.pick(adv).clone()
        } else {
            let mut l = format!("go wtime {} btime {}", rng.below(7), rng.below(7));
            match rng.below(4) {
                0 => l.push_str(&format!(" winc {} binc {}", rng.below(3), rng.below(3))),
                1 => l.push_str(&format!(" movestogo {}", rng.below(3))),
                _ => {}
            }
            l
        }
    } else {
        rng.pick(&well_formed).clone()
    };
    let mut toks: Vec<String> = base.split_whitespace().map(ToString::to_string).collect();
    let n_mut = if gentle { 0 } else { rng.below(4) };
    for _ in 0..n_mut {
        if toks.is_empty() {
            break;
        }
        let i = rng.below(toks.len() as u64) as usize;
        match rng.below(9) {
            0 => {
                toks.remove(i);
            }
            1 => {
                let t = toks[i].clone();
                toks.insert(i, t);
            }
            2 => {
                let j = rng.below(toks.len() as u64) as usize;
                toks.swap(i, j);
            }
            3 => toks[i] = (*rng.pick(JUNK_NUMBERS)).to_string(),
            4 => toks[i] = (*rng.pick(KEYWORDS)).to_string(),
            5 => toks.truncate(i + 1),
            6 => toks.insert(i, (*rng.pick(KEYWORDS)).to_string()),
            7 => toks.push((*rng.pick(KEYWORDS)).to_string()),
            _ => toks.push((*rng.pick(JUNK_NUMBERS)).to_string()),
        }
    }
    // character-level damage inside one token (moves, numbers, keywords): multi-byte characters at
    // every offset, dropped / doubled / swapped characters
    if !gentle && rng.chance(1, 3) && !toks.is_empty() {
        let moves_at = toks.iter().position(|t| t == "moves");
        let i = match moves_at {
            Some(m) if m + 1 < toks.len() && rng.chance(3, 4) => m + 1 + rng.below((toks.len() - m - 1) as u64) as usize,
            _ => rng.below(toks.len() as u64) as usize,
        };
        let mut chars: Vec<char> = toks[i].chars().collect();
        let junk = ['é', '€', '♞', '٣', 'ß', '𝄞', 'Q', '0', '9', '-', '\u{7f}', 'İ'];
        let n = 1 + rng.below(2);
        for _ in 0..n {
            let at = rng.below(chars.len() as u64 + 1) as usize;
            match rng.below(5) {
                0 if at < chars.len() => chars[at] = *rng.pick(&junk),
                1 => chars.insert(at, *rng.pick(&junk)),
                2 if at < chars.len() && chars.len() > 1 => {
                    chars.remove(at);
                }
                3 if at < chars.len() => {
                    let c = chars[at];
                    chars.insert(at, c);
                }
                _ => {
                    if chars.len() >= 2 {
                        let a = rng.below(chars.len() as u64) as usize;
                        let b = rng.below(chars.len() as u64) as usize;
                        chars.swap(a, b);
                    }
                }
            }
        }
        toks[i] = chars.into_iter().collect();
    }
    toks.retain(|t| !t.is_empty());
    // never corrupt a FEN: if the line still says 'fen' the six fields after it must be intact
    if let Some(fi) = toks.iter().position(|t| t == "fen") {
        let orig: Vec<&str> = base.split_whitespace().collect();
        let ofi = orig.iter().position(|t| *t == "fen");
        let intact = ofi.is_some_and(|ofi| orig.len() >= ofi + 7 && toks.len() >= fi + 7 && (1..=6).all(|k| toks[fi + k] == orig[ofi + k]));
        if !intact {
            // replace by the well-formed line with a damaged tail instead
            let mut t: Vec<String> = base.split_whitespace().map(ToString::to_string).collect();
            if rng.chance(1, 2) {
                t.push((*rng.pick(KEYWORDS)).to_string());
            }
            toks = t;
        }
    }
    let line = match if gentle { 19 } else { rng.below(20) } {
        0 => String::new(),
        1 => "   ".to_string(),
        2 => "\t".to_string(),
        3 => format!("  {}  ", toks.join("   ")),
        4 => (*rng.pick(&["xyzzy", "quit_", "Quit?", "UCI", "go!", "♞", "position", "setoption", "go depth", "go wtime", "go nodes", "go movetime", "go winc", "go binc", "go btime"])).to_string(),
        5 => {
            // over-long argument list
            let mut t = toks.clone();
            let extra = if rng.chance(1, 4) { 3_000 + rng.below(25_000) } else { 50 + rng.below(400) };
            for _ in 0..extra {
                t.push((*rng.pick(KEYWORDS)).to_string());
            }
            t.join(" ")
        }
        _ => toks.join(" "),
    };
    // FEN arguments are assumed valid by the property: whatever the mutations above produced, a line
    // that the engine will read as `position fen <six fields>` must carry a valid FEN there, else
    // the keyword is defused (the line stays hostile in every other respect)
    let line = {
        let t: Vec<&str> = line.split_whitespace().collect();
        if t.len() >= 8 && t[0] == "position" && t[1] == "fen" {
            let fen = t[2..8].join(" ");
            let valid = Pos::from_fen(&fen).map(|p| p.is_sane() && p.fen() == fen).unwrap_or(false);
            if valid {
                line
            } else {
                line.replacen("fen", "fenn", 1)
            }
        } else {
            line
        }
    };
    let first = line.split_whitespace().next().unwrap_or("").to_string();
    if first == "quit" {
        return ("isready".to_string(), false);
    }
    (line, first == "go")
}

/// Normalises a line to its token-shape class (numbers -> N, moves -> M).
fn shape_of(line: &str) -> String {
    line.split_whitespace()
        .map(|t| {
            if t.parse::<i128>().is_ok() {
                "N".to_string()
            } else if t.len() >= 4 && t.len() <= 5 && t.as_bytes()[0].is_ascii_lowercase() && t.as_bytes()[1].is_ascii_digit() && t.as_bytes()[2].is_ascii_lowercase() && t.as_bytes()[3].is_ascii_digit() {
                "M".to_string()
            } else if t.contains('/') {
                "F".to_string()
            } else {
                t.to_string()
            }
        })
        .collect::<Vec<_>>()
        .join(" ")
}

/// Does `line` alone kill (or wedge) a fresh engine? Returns the stderr it left.
fn kills_alone(ctx: &Ctx, line: &str) -> Option<Vec<String>> {
    let mut e = spawn(ctx, &[])?;
    e.send(line);
    if line.split_whitespace().next() == Some("isready") {
        let _ = e.wait_out(READY_TIMEOUT_MS, "readyok");
    }
    e.send("isready");
    if e.wait_out(READY_TIMEOUT_MS, "readyok").is_some() {
        return None;
    }
    Some(e.stderr_lines(0))
}

fn minimise(ctx: &Ctx, line: &str) -> String {
    let mut toks: Vec<String> = line.split_whitespace().map(ToString::to_string).collect();
    let mut trials = 0;
    // 1. shortest killing prefix by bisection (a panic at token k needs the tokens before it)
    let (mut lo, mut hi) = (1usize, toks.len());
    while lo < hi && trials < 40 {
        let mid = (lo + hi) / 2;
        trials += 1;
        if kills_alone(ctx, &toks[..mid].join(" ")).is_some() {
            hi = mid;
        } else {
            lo = mid + 1;
        }
    }
    if hi < toks.len() && kills_alone(ctx, &toks[..hi].join(" ")).is_some() {
        toks.truncate(hi);
    }
    // 2. token-wise delta debugging, bounded
    let mut changed = true;
    while changed && toks.len() > 1 && trials < 120 {
        changed = false;
        for i in (1..toks.len()).rev() {
            let mut t = toks.clone();
            t.remove(i);
            trials += 1;
            if kills_alone(ctx, &t.join(" ")).is_some() {
                toks = t;
                changed = true;
                break;
            }
            if trials >= 120 {
                break;
            }
        }
    }
    toks.join(" ")
}

/// setoption lines for what the engine itself advertises in its answer to `uci`: every option with
/// values at and around both ends of its declared range (an option is configuration that stays
/// in force: what it breaks shows in a later line of the same session).
static ADVERTISED: std::sync::OnceLock<Vec<String>> = std::sync::OnceLock::new();

fn learn_options(ctx: &Ctx) -> Vec<String> {
    let mut lines = Vec::new();
    let Some(mut e) = spawn(ctx, &[]) else { return lines };
    e.send("uci");
    let _ = e.wait_out(READY_TIMEOUT_MS, "uciok");
    for ev in &e.log {
        if ev.src != Src::Out {
            continue;
        }
        let Some(rest) = ev.line.strip_prefix("option name ") else { continue };
        let Some((name, decl)) = rest.split_once(" type ") else { continue };
        let t: Vec<&str> = decl.split_whitespace().collect();
        let field = |k: &str| t.iter().position(|x| *x == k).and_then(|i| t.get(i + 1)).and_then(|v| v.parse::<i64>().ok());
        match t.first().copied() {
            Some("spin") => {
                let mut vals = Vec::new();
                if let Some(min) = field("min") {
                    vals.extend([min, min + 1, min + 2, min + 3, min - 1]);
                }
                if let Some(max) = field("max") {
                    vals.extend([max, max - 1, max + 1]);
                }
                if let Some(d) = field("default") {
                    vals.push(d);
                }
                vals.sort_unstable();
                vals.dedup();
                for v in vals {
                    lines.push(format!("setoption name {name} value {v}"));
                }
            }
            Some("check") => {
                lines.push(format!("setoption name {name} value true"));
                lines.push(format!("setoption name {name} value false"));
            }
            Some("button") => lines.push(format!("setoption name {name}")),
            Some("combo") => {
                for (i, x) in t.iter().enumerate() {
                    if *x == "var" {
                        if let Some(v) = t.get(i + 1) {
                            lines.push(format!("setoption name {name} value {v}"));
                        }
                    }
                }
            }
            _ => lines.push(format!("setoption name {name} value x")),
        }
    }
    e.send("quit");
    let _ = e.wait_exit(1_000);
    out::count("C15.setoption_lines_from_advertised_options", lines.len() as u64);
    lines
}

pub fn run_c15(ctx: &Ctx) -> Result<(), String> {
    let _ = ADVERTISED.set(learn_options(ctx));
    let seeds: Vec<String> = corpus::all_seeds()?;
    let n = if ctx.tier == "thorough" { 8_000 } else { 320 };
    pool(ctx, n, |ctx, idx| c15_session(ctx, idx, &seeds));
    Ok(())
}

/// A long-lived process: hundreds of go commands that end at once although their time budget is
/// huge. Whatever the engine sets aside per go (threads, timers) must be given back: an idle engine
/// has one thread. A leak does not kill today, it kills after some thousand moves.
fn c15_long_lived(ctx: &Ctx, idx: usize) {
    let Some(mut e) = spawn(ctx, &[]) else { return };
    let rounds = 250;
    let mut answered = 0;
    e.send("position startpos");
    for k in 0..rounds {
        let cmd = match k % 4 {
            0 => "go depth 1 movetime 3600000",
            1 => "go depth 2 wtime 72000000 btime 72000000",
            2 => "go nodes 50 movetime 3600000",
            _ => "go movetime 3600000",
        };
        e.skip_to_end();
        let from = e.log.len();
        e.send(cmd);
        if k % 4 == 3 {
            e.send("stop");
        }
        if e.wait_since(from, 8_000, |ev| ev.src == Src::Out && ev.line.starts_with("bestmove")).is_none() {
            break;
        }
        answered += 1;
    }
    out::count("C15.evaluations", answered);
    out::count("C15.long_lived_sessions", 1);
    e.settle(400);
    let threads = std::fs::read_to_string(format!("/proc/{}/status", e.pid()))
        .ok()
        .and_then(|t| t.lines().find(|l| l.starts_with("Threads:")).and_then(|l| l.split_whitespace().nth(1).and_then(|x| x.parse::<u64>().ok())));
    if let Some(n) = threads {
        out::set_max("C15.max_threads_of_an_idle_engine", n);
        if answered >= 50 && n > 3 {
            out::violation(
                "C15",
                "threads-pile-up",
                format!("after {answered} go commands (all answered, engine idle for 400 ms) the process has {n} threads; an idle engine has one. At this rate the process runs out of threads after a few thousand moves and dies on an ordinary go"),
                replay_json("C15", idx, &e),
            );
        }
    }
    e.send("isready");
    if e.wait_out(READY_TIMEOUT_MS, "readyok").is_none() {
        out::violation("C15", "killed[long-lived session]", format!("no readyok after {answered} go commands in one process"), replay_json("C15", idx, &e));
    }
    e.send("quit");
    let _ = e.wait_exit(2_000);
}

/// One process that thinks a lot: a dozen searches of 1.5 million nodes each on different
/// positions (the cache grows to well over a million entries, as in a long game), with a liveness
/// probe after each. Whatever the engine does to bound its memory must not wedge or kill it.
fn c15_heavy_cache(ctx: &Ctx, idx: usize) {
    let Some(mut e) = spawn(ctx, &[]) else { return };
    let fens = corpus::bench_fens();
    if fens.is_empty() {
        return;
    }
    let rounds = if ctx.tier == "thorough" { 24 } else { 12 };
    let mut done = 0u64;
    for r in 0..rounds {
        let fen = &fens[(r * 7 + 3) % fens.len()];
        let from = e.log.len();
        e.send(&format!("position fen {fen}"));
        e.send("go nodes 1500000");
        if e.wait_since(from, 90_000, |ev| ev.src == Src::Out && ev.line.starts_with("bestmove")).is_none() {
            // no answer to a go: is the engine still alive and talking?
            e.send("isready");
            if e.wait_since(from, READY_TIMEOUT_MS, |ev| ev.src == Src::Out && ev.line == "readyok").is_none() {
                out::violation(
                    "C15",
                    "killed[long-lived session, large cache]",
                    format!("round {r} of a session of 1.5-million-node searches: 'go nodes 1500000' got neither a bestmove nor, after it, a readyok; stderr: {:?}", e.stderr_lines(from).iter().rev().take(2).collect::<Vec<_>>()),
                    replay_json("C15", idx, &e),
                );
                e.kill();
                return;
            }
            out::inconclusive("C15 heavy-cache session: a go was not answered in 90 s although the engine is alive (C09's business)", 1);
            break;
        }
        e.send("isready");
        out::count("C15.evaluations", 1);
        if e.wait_since(from, READY_TIMEOUT_MS, |ev| ev.src == Src::Out && ev.line == "readyok").is_none() {
            out::violation(
                "C15",
                "killed[long-lived session, large cache]",
                format!("no readyok after round {r} of a session of 1.5-million-node searches; stderr: {:?}", e.stderr_lines(from).iter().rev().take(2).collect::<Vec<_>>()),
                replay_json("C15", idx, &e),
            );
            e.kill();
            return;
        }
        done += 1;
    }
    out::count("C15.heavy_cache_rounds", done);
    let rss_kb = std::fs::read_to_string(format!("/proc/{}/status", e.pid()))
        .ok()
        .and_then(|t| t.lines().find(|l| l.starts_with("VmRSS:")).and_then(|l| l.split_whitespace().nth(1).and_then(|x| x.parse::<u64>().ok())));
    if let Some(kb) = rss_kb {
        out::set_max("C15.max_resident_kb_after_heavy_session", kb);
    }
    e.send("quit");
    if e.wait_exit(EXIT_TIMEOUT_MS).is_none() {
        out::violation("C15", "no-exit-on-quit", "engine still running 3000 ms after quit at the end of a session of 1.5-million-node searches".to_string(), replay_json("C15", idx, &e));
        e.kill();
    }
}

/// A search that its limits do not bound in time (depth 1 or 2 on a position whose capture search
/// runs for minutes) must not take the input thread with it: isready is answered while it runs,
/// stop ends it, quit ends the process.
fn c15_endless_shallow_search(ctx: &Ctx, idx: usize, rng: &mut Rng) {
    let heavy = corpus::queen_rich_seeds();
    if heavy.is_empty() {
        return;
    }
    for round in 0..2 {
        let Some(mut e) = spawn(ctx, &[]) else { return };
        let fen = &heavy[(idx + round) % heavy.len()];
        let go = *rng.pick(&["go depth 1", "go depth 2", "go depth 1 nodes 4000000000", "go depth 2 movetime 3600000"]);
        let from = e.log.len();
        e.send(&format!("position fen {fen}"));
        e.send(go);
        e.settle(300);
        e.send("isready");
        out::count("C15.evaluations", 1);
        out::count("C15.shallow_searches_on_queen_rich_positions", 1);
        out::count_shape(&format!("position fen QUEENS {go} isready"));
        let still_searching = e.count_out(from, "bestmove") == 0;
        if e.wait_since(from, READY_TIMEOUT_MS, |ev| ev.src == Src::Out && ev.line == "readyok").is_none() {
            out::violation(
                "C15",
                "wedged[shallow go on a capture-rich position]",
                format!("'position fen {fen}' + '{go}' + 'isready': no readyok within {READY_TIMEOUT_MS} ms (search {}; engine {})", if still_searching { "still running" } else { "had already answered" }, if e.is_alive() { "alive" } else { "gone" }),
                replay_json("C15", idx, &e),
            );
            e.kill();
            return;
        }
        e.send("stop");
        let _ = e.wait_since(from, 5_000, |ev| ev.src == Src::Out && ev.line.starts_with("bestmove"));
        e.send("quit");
        if e.wait_exit(EXIT_TIMEOUT_MS).is_none() {
            out::violation("C15", "no-exit-on-quit", format!("engine still running {EXIT_TIMEOUT_MS} ms after stop + quit that followed '{go}' on '{fen}'"), replay_json("C15", idx, &e));
            e.kill();
        }
    }
}

/// go on positions where nothing is legal (mate, stalemate), with young and old clocks.
fn c15_terminal(ctx: &Ctx, idx: usize, rng: &mut Rng) {
    let Some(mut e) = spawn(ctx, &[]) else { return };
    let terminal = [
        "7k/5K2/6Q1/8/8/8/8/8 b - - {H} 120",
        "R5k1/5ppp/8/8/8/8/5PPP/6K1 b - - {H} 60",
        "7k/5Q2/6K1/8/8/8/8/8 b - - {H} 90",
        "rnb1kbnr/pppp1ppp/8/4p3/6Pq/5P2/PPPPP2P/RNBQKBNR w KQkq - {H} 3",
        "K1k5/P7/8/8/8/8/8/8 w - - {H} 77",
    ];
    for _ in 0..3 {
        let half = *rng.pick(&[0u32, 3, 50, 99, 100, 101, 120, 149]);
        let fen = rng.pick(&terminal).replace("{H}", &half.to_string());
        let Ok(p) = Pos::from_fen(&fen) else { continue };
        if !p.is_sane() || !p.legal_moves().is_empty() {
            continue;
        }
        let go = *rng.pick(&["go depth 3", "go movetime 20", "go wtime 60000 btime 60000", "go nodes 100", "go", "go infinite"]);
        let from = e.log.len();
        e.send(&format!("position fen {fen}"));
        e.send(go);
        if go == "go" || go == "go infinite" {
            e.send("stop");
        }
        e.send("isready");
        out::count("C15.evaluations", 1);
        out::count("C15.go_on_terminal_positions", 1);
        out::count_shape(&format!("position fen F go-on-terminal {go} half>=100:{}", half >= 100));
        if e.wait_out(READY_TIMEOUT_MS, "readyok").is_none() {
            let stderr = e.stderr_lines(from);
            let panic_line = stderr.iter().find(|s| s.contains("panicked")).cloned().unwrap_or_default();
            out::violation(
                "C15",
                "killed[go on a position without legal moves]",
                format!("'position fen {fen}' + '{go}' (nothing is legal there, half-move clock {half}): no readyok afterwards; {panic_line}"),
                replay_json("C15", idx, &e),
            );
            return;
        }
    }
    e.send("quit");
    let _ = e.wait_exit(2_000);
}

fn c15_session(ctx: &Ctx, idx: usize, seeds: &[String]) {
    let mut rng = Rng::derive(ctx.seed, 0xC15_0000 + idx as u64);
    if idx < 2 {
        c15_long_lived(ctx, idx);
        return;
    }
    if idx % 16 == 5 {
        c15_terminal(ctx, idx, &mut rng);
        return;
    }
    if idx == 2 {
        c15_heavy_cache(ctx, idx);
        return;
    }
    if idx == 3 || idx == 4 {
        c15_endless_shallow_search(ctx, idx, &mut rng);
        return;
    }
    let Some(mut e) = spawn(ctx, &[]) else { return };
    let lines = 10 + rng.below(40);
    let end_with_eof = idx % 3 == 0;
    let eof_after = if end_with_eof { rng.below(lines + 1) } else { lines };
    let mut searching = false;
    for k in 0..eof_after {
        let (line, starts_search) = fuzz_line(&mut rng, seeds);
        let from = e.log.len();
        e.send(&line);
        if line.split_whitespace().next() == Some("isready") {
            // the fuzzed line is itself an isready: take its own answer first so that the probe's
            // answer below cannot be confused with it
            let _ = e.wait_out(READY_TIMEOUT_MS, "readyok");
        }
        if starts_search {
            searching = true;
        }
        out::count("C15.evaluations", 1);
        out::count_shape(&shape_of(&line));
        e.send("isready");
        let ok = e.wait_out(READY_TIMEOUT_MS, "readyok").is_some();
        if !ok {
            let alive = e.is_alive();
            let stderr = e.stderr_lines(from);
            // reproduce alone, then minimise token-wise; the witness is the minimal line
            let alone = kills_alone(ctx, &line);
            let budget_left = MINIMISATIONS.fetch_add(1, Ordering::Relaxed) < 8;
            let (min_line, how) = if alone.is_some() && budget_left {
                (minimise(ctx, &line), "alone in a fresh process")
            } else if alone.is_some() {
                (line.clone(), "alone in a fresh process, not minimised")
            } else {
                (line.clone(), "only within this session")
            };
            let panic_line = stderr.iter().find(|s| s.contains("panicked")).cloned().unwrap_or_default();
            out::violation(
                "C15",
                &format!("killed[{}]", shape_of(&min_line)),
                format!(
                    "after the line {:?} (line {k} of session) the engine {} (no readyok within {READY_TIMEOUT_MS} ms); minimal killing line {:?} ({how}); {panic_line}",
                    line,
                    if alive { "is alive but silent" } else { "has exited" },
                    min_line
                ),
                replay_json("C15", idx, &e),
            );
            return;
        }
        if searching && rng.chance(2, 3) {
            e.send("stop");
            // give the search a moment to end so searches do not pile up; its answer is C09/C10's business
            let _ = e.wait_out(400, "bestmove");
            searching = false;
        }
        if out::want_sample() && idx % 41 == 1 && k == 3 {
            out::sample(format!("C15 session {idx}: line {:?} -> readyok", line));
        }
    }
    // termination: quit, or end of input
    let from = e.log.len();
    let t = std::time::Instant::now();
    if end_with_eof {
        // end of input may also come in the middle of a line (short, or very long, never terminated)
        match rng.below(4) {
            0 => {
                let (line, _) = fuzz_line(&mut rng, seeds);
                let cut: String = line.chars().take(1 + rng.below(12) as usize).collect();
                e.send_raw(cut.as_bytes());
                out::count("C15.eof_inside_a_line", 1);
            }
            1 => {
                let n = 2_000 + rng.below(120_000) as usize;
                let mut junk = String::with_capacity(n + 16);
                junk.push_str(*rng.pick(&["position startpos moves", "go", "setoption name", "xyz", ""]));
                while junk.len() < n {
                    junk.push(' ');
                    junk.push_str(*rng.pick(KEYWORDS));
                }
                e.send_raw(junk.as_bytes());
                out::count("C15.eof_inside_a_line", 1);
                out::count("C15.eof_inside_an_overlong_line", 1);
            }
            _ => {}
        }
        e.close_stdin();
        out::count("C15.eof_sessions", 1);
    } else {
        e.send("quit");
        out::count("C15.quit_sessions", 1);
    }
    out::count("C15.evaluations", 1);
    match e.wait_exit(EXIT_TIMEOUT_MS) {
        Some(_) => {
            out::set_max("C15.max_exit_ms", t.elapsed().as_millis() as u64);
        }
        None => {
            let flood = e.log[from..].iter().filter(|x| x.src == Src::Err).count();
            out::violation(
                "C15",
                if end_with_eof { "no-exit-on-eof" } else { "no-exit-on-quit" },
                format!(
                    "engine still running {EXIT_TIMEOUT_MS} ms after {} (after {eof_after} lines{}); {} stderr lines since, e.g. {:?}",
                    if end_with_eof { "its input was closed" } else { "quit" },
                    if searching { ", a search was running" } else { "" },
                    flood,
                    e.stderr_lines(from).first()
                ),
                replay_json("C15", idx, &e),
            );
            e.kill();
        }
    }
}

// ---------------------------------------------------------------------------
// C16 over UCI: a fixed-depth search from a fresh process (empty cache) must give the same
// bestmove, score and node count whatever harmless commands surround it or arrive during it
// ---------------------------------------------------------------------------

fn c16_session(ctx: &Ctx, fen: &str, depth: u64, variant: usize, rng: &mut Rng) -> Option<(String, String, String)> {
    let mut e = spawn(ctx, &[])?;
    match variant {
        1 | 3 | 5 => {
            e.send("ucinewgame");
        }
        _ => {}
    }
    if variant == 4 || variant == 5 {
        e.send("isready");
        e.wait_out(READY_TIMEOUT_MS, "readyok")?;
    }
    e.send(&format!("position fen {fen}"));
    e.skip_to_end();
    let from = e.log.len();
    e.send(&format!("go depth {depth}"));
    if variant == 2 || variant == 3 {
        // harmless traffic while the search runs
        for _ in 0..(2 + rng.below(4)) {
            e.settle(2 + rng.below(60));
            e.send("isready");
        }
    }
    e.wait_since(from, 60_000, |ev| ev.src == Src::Out && ev.line.starts_with("bestmove"))?;
    let bm = e.log[from..].iter().find(|x| x.src == Src::Out && x.line.starts_with("bestmove")).map(|x| x.line.clone())?;
    let last_info = e.log[from..].iter().filter(|x| x.src == Src::Out && x.line.starts_with("info")).last().map(|x| x.line.clone()).unwrap_or_default();
    let info = parse_info(&last_info).ok()?;
    e.send("quit");
    let _ = e.wait_exit(1_000);
    Some((bm, format!("{} {}", info.score_kind, info.score), format!("depth {} nodes {}", info.depth, info.nodes.unwrap_or(0))))
}

pub fn run_c16_uci(ctx: &Ctx) -> Result<(), String> {
    let fens = corpus::bench_fens();
    let n = if ctx.tier == "thorough" { 40 } else { 8 };
    let picks: Vec<String> = {
        let mut rng = Rng::derive(ctx.seed, 0xC16_0C1);
        (0..n).map(|_| rng.pick(&fens).clone()).collect()
    };
    pool(ctx, picks.len(), |ctx, i| {
        let mut rng = Rng::derive(ctx.seed, 0xC16_0000 + i as u64);
        let fen = &picks[i];
        let depth = 4 + rng.below(2);
        let names = ["plain", "ucinewgame first", "isready during the search", "ucinewgame first + isready during the search", "isready handshake first", "ucinewgame + isready handshake first"];
        let mut results: Vec<(usize, (String, String, String))> = Vec::new();
        for v in 0..names.len() {
            match c16_session(ctx, fen, depth, v, &mut rng) {
                Some(r) => results.push((v, r)),
                None => out::inconclusive("C16 UCI session gave no result", 1),
            }
            out::count("C16.uci_sessions", 1);
        }
        if let Some((_, base)) = results.first().cloned() {
            for (v, r) in &results[1..] {
                if *r != base {
                    out::violation(
                        "C16",
                        &format!("uci-variant[{}]", names[*v]),
                        format!(
                            "'position fen {fen}' + 'go depth {depth}' in a fresh process: plain session gives {:?}, the session with {} gives {:?}",
                            base, names[*v], r
                        ),
                        format!("{{\"kind\":\"c16-uci\",\"job\":{i}}}"),
                    );
                }
            }
            if out::want_sample() {
                out::sample(format!("C16 over UCI: '{fen}' depth {depth}: {} session variants agree on {:?}", results.len(), base));
            }
        }
    });
    Ok(())
}
