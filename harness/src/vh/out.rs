//! Result collector. The harness prints exactly one JSON document (to --out or stdout) that the
//! python driver turns into verdict + evidence. Thread safe.
use std::collections::BTreeMap;
use std::sync::Mutex;

#[derive(Clone, Debug)]
pub struct Violation {
    pub prop: String,
    /// stable class of the failure (used for de-duplication and known findings)
    pub sig: String,
    pub detail: String,
    /// JSON object text that `vh replay` understands
    pub replay: String,
}

#[derive(Default)]
pub struct Report {
    pub violations: Vec<Violation>,
    pub sig_counts: BTreeMap<String, u64>,
    pub counters: BTreeMap<String, u64>,
    pub samples: Vec<String>,
    pub inconclusive: BTreeMap<String, u64>,
    pub notes: Vec<String>,
    pub harness_errors: Vec<String>,
    pub distinct: BTreeMap<String, std::collections::HashSet<u64>>,
}

pub static REPORT: Mutex<Option<Report>> = Mutex::new(None);
const MAX_WITNESSES_PER_SIG: u64 = 3;
const MAX_SAMPLES: usize = 12;

fn with<R>(f: impl FnOnce(&mut Report) -> R) -> R {
    let mut g = REPORT.lock().unwrap_or_else(std::sync::PoisonError::into_inner);
    if g.is_none() {
        *g = Some(Report::default());
    }
    f(g.as_mut().unwrap())
}

pub fn violation(prop: &str, sig: &str, detail: String, replay: String) {
    with(|r| {
        let c = r.sig_counts.entry(format!("{prop}|{sig}")).or_insert(0);
        *c += 1;
        if *c <= MAX_WITNESSES_PER_SIG {
            r.violations.push(Violation {
                prop: prop.to_string(),
                sig: sig.to_string(),
                detail,
                replay,
            });
        }
    });
}

pub fn count(name: &str, n: u64) {
    with(|r| *r.counters.entry(name.to_string()).or_insert(0) += n);
}

pub fn set_max(name: &str, n: u64) {
    with(|r| {
        let e = r.counters.entry(name.to_string()).or_insert(0);
        if n > *e {
            *e = n;
        }
    });
}

pub fn sample(text: String) {
    with(|r| {
        if r.samples.len() < MAX_SAMPLES {
            r.samples.push(text);
        }
    });
}

/// Counts distinct cases: `name` becomes a counter holding the number of different `key`s seen.
pub fn distinct(name: &str, key: &str) {
    let mut h: u64 = 1469598103934665603;
    for b in key.bytes() {
        h = (h ^ u64::from(b)).wrapping_mul(1099511628211);
    }
    with(|r| {
        r.distinct.entry(name.to_string()).or_default().insert(h);
    });
}

pub fn count_shape(shape: &str) {
    distinct("C15.nontrivial", shape);
}

pub fn want_sample() -> bool {
    with(|r| r.samples.len() < MAX_SAMPLES)
}

pub fn inconclusive(reason: &str, n: u64) {
    with(|r| *r.inconclusive.entry(reason.to_string()).or_insert(0) += n);
}

pub fn note(text: String) {
    with(|r| r.notes.push(text));
}

pub fn harness_error(text: String) {
    with(|r| {
        if r.harness_errors.len() < 20 {
            r.harness_errors.push(text);
        }
    });
}

pub fn violation_count() -> u64 {
    with(|r| r.sig_counts.values().sum())
}

pub fn esc(s: &str) -> String {
    let mut o = String::with_capacity(s.len() + 2);
    o.push('"');
    for c in s.chars() {
        match c {
            '"' => o.push_str("\\\""),
            '\\' => o.push_str("\\\\"),
            '\n' => o.push_str("\\n"),
            '\r' => o.push_str("\\r"),
            '\t' => o.push_str("\\t"),
            c if (c as u32) < 0x20 => o.push_str(&format!("\\u{:04x}", c as u32)),
            c => o.push(c),
        }
    }
    o.push('"');
    o
}

pub fn str_list(v: &[String]) -> String {
    format!("[{}]", v.iter().map(|s| esc(s)).collect::<Vec<_>>().join(","))
}

pub fn render() -> String {
    with(|r| {
        let mut s = String::from("{\n");
        s.push_str("\"violations\":[");
        s.push_str(
            &r.violations
                .iter()
                .map(|v| {
                    format!(
                        "{{\"prop\":{},\"sig\":{},\"detail\":{},\"replay\":{}}}",
                        esc(&v.prop),
                        esc(&v.sig),
                        esc(&v.detail),
                        if v.replay.is_empty() { "null".to_string() } else { v.replay.clone() }
                    )
                })
                .collect::<Vec<_>>()
                .join(",\n"),
        );
        s.push_str("],\n\"sig_counts\":{");
        s.push_str(
            &r.sig_counts
                .iter()
                .map(|(k, v)| format!("{}:{}", esc(k), v))
                .collect::<Vec<_>>()
                .join(","),
        );
        s.push_str("},\n\"counters\":{");
        let mut counters = r.counters.clone();
        for (k, v) in &r.distinct {
            *counters.entry(k.clone()).or_insert(0) += v.len() as u64;
        }
        s.push_str(
            &counters
                .iter()
                .map(|(k, v)| format!("{}:{}", esc(k), v))
                .collect::<Vec<_>>()
                .join(","),
        );
        s.push_str("},\n\"inconclusive\":{");
        s.push_str(
            &r.inconclusive
                .iter()
                .map(|(k, v)| format!("{}:{}", esc(k), v))
                .collect::<Vec<_>>()
                .join(","),
        );
        s.push_str("},\n\"samples\":");
        s.push_str(&str_list(&r.samples));
        s.push_str(",\n\"notes\":");
        s.push_str(&str_list(&r.notes));
        s.push_str(",\n\"harness_errors\":");
        s.push_str(&str_list(&r.harness_errors));
        s.push_str("\n}\n");
        s
    })
}

// ---------------------------------------------------------------------------
// A very small JSON reader (objects, arrays, strings, numbers, bool, null) for replay files.
// ---------------------------------------------------------------------------

#[derive(Clone, Debug, PartialEq)]
pub enum Json {
    Null,
    Bool(bool),
    Num(f64),
    Str(String),
    Arr(Vec<Json>),
    Obj(Vec<(String, Json)>),
}

impl Json {
    pub fn get(&self, k: &str) -> Option<&Json> {
        match self {
            Json::Obj(v) => v.iter().find(|(kk, _)| kk == k).map(|(_, v)| v),
            _ => None,
        }
    }
    pub fn str(&self, k: &str) -> Option<String> {
        match self.get(k) {
            Some(Json::Str(s)) => Some(s.clone()),
            _ => None,
        }
    }
    pub fn num(&self, k: &str) -> Option<f64> {
        match self.get(k) {
            Some(Json::Num(n)) => Some(*n),
            _ => None,
        }
    }
    pub fn arr_str(&self, k: &str) -> Vec<String> {
        match self.get(k) {
            Some(Json::Arr(v)) => v
                .iter()
                .filter_map(|j| if let Json::Str(s) = j { Some(s.clone()) } else { None })
                .collect(),
            _ => vec![],
        }
    }
}

pub fn parse_json(text: &str) -> Result<Json, String> {
    let b: Vec<char> = text.chars().collect();
    let mut i = 0;
    let v = parse_val(&b, &mut i)?;
    Ok(v)
}

fn ws(b: &[char], i: &mut usize) {
    while *i < b.len() && b[*i].is_whitespace() {
        *i += 1;
    }
}

fn parse_val(b: &[char], i: &mut usize) -> Result<Json, String> {
    ws(b, i);
    if *i >= b.len() {
        return Err("eof".into());
    }
    match b[*i] {
        '{' => {
            *i += 1;
            let mut v = Vec::new();
            loop {
                ws(b, i);
                if b[*i] == '}' {
                    *i += 1;
                    break;
                }
                let k = match parse_val(b, i)? {
                    Json::Str(s) => s,
                    _ => return Err("key".into()),
                };
                ws(b, i);
                if b[*i] != ':' {
                    return Err("colon".into());
                }
                *i += 1;
                let val = parse_val(b, i)?;
                v.push((k, val));
                ws(b, i);
                if b[*i] == ',' {
                    *i += 1;
                }
            }
            Ok(Json::Obj(v))
        }
        '[' => {
            *i += 1;
            let mut v = Vec::new();
            loop {
                ws(b, i);
                if b[*i] == ']' {
                    *i += 1;
                    break;
                }
                v.push(parse_val(b, i)?);
                ws(b, i);
                if b[*i] == ',' {
                    *i += 1;
                }
            }
            Ok(Json::Arr(v))
        }
        '"' => {
            *i += 1;
            let mut s = String::new();
            while *i < b.len() && b[*i] != '"' {
                if b[*i] == '\\' {
                    *i += 1;
                    match b[*i] {
                        'n' => s.push('\n'),
                        't' => s.push('\t'),
                        'r' => s.push('\r'),
                        'u' => {
                            let hex: String = b[*i + 1..*i + 5].iter().collect();
                            s.push(char::from_u32(u32::from_str_radix(&hex, 16).unwrap_or(63)).unwrap_or('?'));
                            *i += 4;
                        }
                        c => s.push(c),
                    }
                } else {
                    s.push(b[*i]);
                }
                *i += 1;
            }
            *i += 1;
            Ok(Json::Str(s))
        }
        't' => {
            *i += 4;
            Ok(Json::Bool(true))
        }
        'f' => {
            *i += 5;
            Ok(Json::Bool(false))
        }
        'n' => {
            *i += 4;
            Ok(Json::Null)
        }
        _ => {
            let st = *i;
            while *i < b.len() && (b[*i].is_ascii_digit() || "+-.eE".contains(b[*i])) {
                *i += 1;
            }
            let t: String = b[st..*i].iter().collect();
            t.parse::<f64>().map(Json::Num).map_err(|_| format!("number '{t}'"))
        }
    }
}
