//! Independent chess-rules oracle: 8x8 mailbox, offset tables, copy-make legality.
//! Shares no code, data layout or algorithm with RCE. Written from the FIDE rules.
//!
//! Conventions: square index = rank*8 + file (a1 = 0, h8 = 63).
//! Piece codes: 0 empty; white P N B R Q K = 1..6; black = 9..14 (code | 8).
//! The en-passant file is set after *every* double pawn push (that is how the
//! properties C03/C04 define it), whether or not a capture is possible.

pub const EMPTY: u8 = 0;
pub const P: u8 = 1;
pub const N: u8 = 2;
pub const B: u8 = 3;
pub const R: u8 = 4;
pub const Q: u8 = 5;
pub const K: u8 = 6;
pub const BLACK: u8 = 8;

pub const WK: u8 = 1;
pub const WQ: u8 = 2;
pub const BK: u8 = 4;
pub const BQ: u8 = 8;

#[inline]
pub fn kind(pc: u8) -> u8 {
    pc & 7
}
#[inline]
pub fn color(pc: u8) -> u8 {
    // 0 white, 1 black (only meaningful for pc != 0)
    (pc >> 3) & 1
}

#[derive(Clone, Copy, PartialEq, Eq, Debug, Hash, PartialOrd, Ord)]
pub struct Mv {
    pub from: u8,
    pub to: u8,
    /// 0 or N/B/R/Q
    pub promo: u8,
    pub castle: bool,
    pub ep: bool,
    pub double: bool,
    /// piece code of the captured piece (0 = none); for e.p. the pawn
    pub captured: u8,
    /// piece code of the moving piece
    pub piece: u8,
}

impl Mv {
    pub fn uci(&self) -> String {
        let mut s = String::with_capacity(5);
        s.push((b'a' + (self.from & 7)) as char);
        s.push((b'1' + (self.from >> 3)) as char);
        s.push((b'a' + (self.to & 7)) as char);
        s.push((b'1' + (self.to >> 3)) as char);
        match self.promo {
            N => s.push('n'),
            B => s.push('b'),
            R => s.push('r'),
            Q => s.push('q'),
            _ => {}
        }
        s
    }
    /// Compact code used to compare move sets: everything the engine exposes about a move.
    pub fn code(&self) -> u32 {
        u32::from(self.from)
            | (u32::from(self.to) << 6)
            | (u32::from(self.promo) << 12)
            | (u32::from(self.castle) << 15)
            | (u32::from(self.ep) << 16)
            | (u32::from(self.double) << 17)
            | (u32::from(self.captured) << 18)
            | (u32::from(self.piece) << 22)
    }
}

pub fn describe_code(c: u32) -> String {
    let m = Mv {
        from: (c & 63) as u8,
        to: ((c >> 6) & 63) as u8,
        promo: ((c >> 12) & 7) as u8,
        castle: (c >> 15) & 1 == 1,
        ep: (c >> 16) & 1 == 1,
        double: (c >> 17) & 1 == 1,
        captured: ((c >> 18) & 15) as u8,
        piece: ((c >> 22) & 15) as u8,
    };
    format!(
        "{}[{}{}{}{}{}]",
        m.uci(),
        piece_char(m.piece),
        if m.captured != 0 {
            format!("x{}", piece_char(m.captured))
        } else {
            String::new()
        },
        if m.castle { " castle" } else { "" },
        if m.ep { " ep" } else { "" },
        if m.double { " double" } else { "" }
    )
}

pub fn piece_char(pc: u8) -> char {
    match pc {
        1 => 'P',
        2 => 'N',
        3 => 'B',
        4 => 'R',
        5 => 'Q',
        6 => 'K',
        9 => 'p',
        10 => 'n',
        11 => 'b',
        12 => 'r',
        13 => 'q',
        14 => 'k',
        _ => '.',
    }
}

pub fn char_piece(c: char) -> Option<u8> {
    Some(match c {
        'P' => 1,
        'N' => 2,
        'B' => 3,
        'R' => 4,
        'Q' => 5,
        'K' => 6,
        'p' => 9,
        'n' => 10,
        'b' => 11,
        'r' => 12,
        'q' => 13,
        'k' => 14,
        _ => return None,
    })
}

pub type Ident = [u8; 35];

#[derive(Clone, PartialEq, Eq, Debug)]
pub struct Pos {
    pub sq: [u8; 64],
    /// 0 white, 1 black
    pub stm: u8,
    pub castle: u8,
    /// file of the pawn that just double-pushed, or -1
    pub ep: i8,
    pub half: u32,
    pub full: u32,
}

const KNIGHT_D: [(i8, i8); 8] = [
    (1, 2),
    (2, 1),
    (2, -1),
    (1, -2),
    (-1, -2),
    (-2, -1),
    (-2, 1),
    (-1, 2),
];
const KING_D: [(i8, i8); 8] = [
    (1, 0),
    (1, 1),
    (0, 1),
    (-1, 1),
    (-1, 0),
    (-1, -1),
    (0, -1),
    (1, -1),
];
const ROOK_D: [(i8, i8); 4] = [(1, 0), (-1, 0), (0, 1), (0, -1)];
const BISHOP_D: [(i8, i8); 4] = [(1, 1), (1, -1), (-1, 1), (-1, -1)];

#[inline]
fn step(sq: u8, dr: i8, df: i8) -> Option<u8> {
    let r = (sq >> 3) as i8 + dr;
    let f = (sq & 7) as i8 + df;
    if (0..8).contains(&r) && (0..8).contains(&f) {
        Some((r * 8 + f) as u8)
    } else {
        None
    }
}

impl Pos {
    pub fn startpos() -> Pos {
        Pos::from_fen("rnbqkbnr/pppppppp/8/8/8/8/PPPPPPPP/RNBQKBNR w KQkq - 0 1").unwrap()
    }

    /// Independent FEN reader (4 or 6 fields).
    pub fn from_fen(fen: &str) -> Result<Pos, String> {
        let f: Vec<&str> = fen.split_whitespace().collect();
        if f.len() < 4 {
            return Err(format!("too few fields in FEN '{fen}'"));
        }
        let mut sq = [EMPTY; 64];
        let ranks: Vec<&str> = f[0].split('/').collect();
        if ranks.len() != 8 {
            return Err(format!("bad placement '{}'", f[0]));
        }
        for (i, rank_str) in ranks.iter().enumerate() {
            let rank = 7 - i;
            let mut file = 0usize;
            for c in rank_str.chars() {
                if let Some(d) = c.to_digit(10) {
                    file += d as usize;
                } else if let Some(pc) = char_piece(c) {
                    if file > 7 {
                        return Err(format!("rank overflow in '{}'", f[0]));
                    }
                    sq[rank * 8 + file] = pc;
                    file += 1;
                } else {
                    return Err(format!("bad char '{c}' in placement"));
                }
            }
            if file != 8 {
                return Err(format!("rank '{rank_str}' does not have 8 files"));
            }
        }
        let stm = match f[1] {
            "w" => 0,
            "b" => 1,
            _ => return Err(format!("bad side '{}'", f[1])),
        };
        let mut castle = 0;
        for c in f[2].chars() {
            castle |= match c {
                'K' => WK,
                'Q' => WQ,
                'k' => BK,
                'q' => BQ,
                '-' => 0,
                _ => return Err(format!("bad castling field '{}'", f[2])),
            };
        }
        let ep = if f[3] == "-" {
            -1
        } else {
            let c = f[3].as_bytes()[0];
            if !(b'a'..=b'h').contains(&c) {
                return Err(format!("bad ep field '{}'", f[3]));
            }
            (c - b'a') as i8
        };
        let half = if f.len() > 4 {
            f[4].parse().map_err(|_| "bad halfmove")?
        } else {
            0
        };
        let full = if f.len() > 5 {
            f[5].parse().map_err(|_| "bad fullmove")?
        } else {
            1
        };
        Ok(Pos {
            sq,
            stm,
            castle,
            ep,
            half,
            full,
        })
    }

    pub fn placement_fen(&self) -> String {
        let mut s = String::new();
        for rank in (0..8).rev() {
            let mut empty = 0;
            for file in 0..8 {
                let pc = self.sq[rank * 8 + file];
                if pc == EMPTY {
                    empty += 1;
                } else {
                    if empty > 0 {
                        s.push_str(&empty.to_string());
                        empty = 0;
                    }
                    s.push(piece_char(pc));
                }
            }
            if empty > 0 {
                s.push_str(&empty.to_string());
            }
            if rank > 0 {
                s.push('/');
            }
        }
        s
    }

    pub fn castle_str(&self) -> String {
        let mut s = String::new();
        if self.castle & WK != 0 {
            s.push('K');
        }
        if self.castle & WQ != 0 {
            s.push('Q');
        }
        if self.castle & BK != 0 {
            s.push('k');
        }
        if self.castle & BQ != 0 {
            s.push('q');
        }
        if s.is_empty() {
            s.push('-');
        }
        s
    }

    pub fn ep_str(&self) -> String {
        if self.ep < 0 {
            "-".to_string()
        } else {
            // the square behind the pawn that just moved: rank 6 if white is to move, rank 3 if black
            let rank = if self.stm == 0 { '6' } else { '3' };
            format!("{}{}", (b'a' + self.ep as u8) as char, rank)
        }
    }

    pub fn fen(&self) -> String {
        format!(
            "{} {} {} {} {} {}",
            self.placement_fen(),
            if self.stm == 0 { 'w' } else { 'b' },
            self.castle_str(),
            self.ep_str(),
            self.half,
            self.full
        )
    }

    pub fn fen4(&self) -> String {
        format!(
            "{} {} {} {}",
            self.placement_fen(),
            if self.stm == 0 { 'w' } else { 'b' },
            self.castle_str(),
            self.ep_str()
        )
    }

    /// Exact identity of the position for repetition / key purposes (no hashing).
    pub fn ident(&self) -> Ident {
        let mut id = [0u8; 35];
        for i in 0..32 {
            id[i] = self.sq[2 * i] | (self.sq[2 * i + 1] << 4);
        }
        id[32] = self.stm;
        id[33] = self.castle;
        id[34] = (self.ep + 1) as u8;
        id
    }

    pub fn king_sq(&self, col: u8) -> Option<u8> {
        let k = K | (col << 3);
        (0..64u8).find(|&s| self.sq[s as usize] == k)
    }

    /// Is `target` attacked by any piece of colour `by`? Ray scan outward from the target.
    pub fn attacked(&self, target: u8, by: u8) -> bool {
        let bc = by << 3;
        // pawns: a white pawn on (r-1, f+-1) attacks (r, f)
        let pdr: i8 = if by == 0 { -1 } else { 1 };
        for df in [-1i8, 1] {
            if let Some(s) = step(target, pdr, df) {
                if self.sq[s as usize] == (P | bc) {
                    return true;
                }
            }
        }
        for (dr, df) in KNIGHT_D {
            if let Some(s) = step(target, dr, df) {
                if self.sq[s as usize] == (N | bc) {
                    return true;
                }
            }
        }
        for (dr, df) in KING_D {
            if let Some(s) = step(target, dr, df) {
                if self.sq[s as usize] == (K | bc) {
                    return true;
                }
            }
        }
        for (dr, df) in ROOK_D {
            let mut cur = target;
            while let Some(s) = step(cur, dr, df) {
                let pc = self.sq[s as usize];
                if pc != EMPTY {
                    if pc == (R | bc) || pc == (Q | bc) {
                        return true;
                    }
                    break;
                }
                cur = s;
            }
        }
        for (dr, df) in BISHOP_D {
            let mut cur = target;
            while let Some(s) = step(cur, dr, df) {
                let pc = self.sq[s as usize];
                if pc != EMPTY {
                    if pc == (B | bc) || pc == (Q | bc) {
                        return true;
                    }
                    break;
                }
                cur = s;
            }
        }
        false
    }

    /// Does the piece standing on `s` attack `target` (with the current blockers)?
    pub fn piece_attacks(&self, s: u8, target: u8) -> bool {
        let pc = self.sq[s as usize];
        if pc == EMPTY || s == target {
            return false;
        }
        let reach = |dirs: &[(i8, i8)], slide: bool| -> bool {
            for &(dr, df) in dirs {
                let mut cur = s;
                while let Some(n) = step(cur, dr, df) {
                    if n == target {
                        return true;
                    }
                    if !slide || self.sq[n as usize] != EMPTY {
                        break;
                    }
                    cur = n;
                }
            }
            false
        };
        match kind(pc) {
            P => {
                let dr: i8 = if color(pc) == 0 { 1 } else { -1 };
                reach(&[(dr, -1), (dr, 1)], false)
            }
            N => reach(&KNIGHT_D, false),
            K => reach(&KING_D, false),
            R => reach(&ROOK_D, true),
            B => reach(&BISHOP_D, true),
            Q => reach(&KING_D, true),
            _ => false,
        }
    }

    /// Number of pieces of colour `by` attacking `target`.
    pub fn attackers(&self, target: u8, by: u8) -> u32 {
        (0..64u8)
            .filter(|&s| self.sq[s as usize] != EMPTY && color(self.sq[s as usize]) == by && self.piece_attacks(s, target))
            .count() as u32
    }

    pub fn in_check(&self, col: u8) -> bool {
        match self.king_sq(col) {
            Some(k) => self.attacked(k, col ^ 1),
            None => false,
        }
    }

    fn push_pawn_moves(&self, from: u8, to: u8, captured: u8, ep: bool, double: bool, out: &mut Vec<Mv>) {
        let me = self.stm;
        let pc = P | (me << 3);
        let last = if me == 0 { 7 } else { 0 };
        if to >> 3 == last {
            for promo in [Q, R, B, N] {
                out.push(Mv {
                    from,
                    to,
                    promo,
                    castle: false,
                    ep: false,
                    double: false,
                    captured,
                    piece: pc,
                });
            }
        } else {
            out.push(Mv {
                from,
                to,
                promo: 0,
                castle: false,
                ep,
                double,
                captured,
                piece: pc,
            });
        }
    }

    pub fn pseudo_moves(&self) -> Vec<Mv> {
        let mut out = Vec::with_capacity(48);
        let me = self.stm;
        for from in 0..64u8 {
            let pc = self.sq[from as usize];
            if pc == EMPTY || color(pc) != me {
                continue;
            }
            match kind(pc) {
                P => {
                    let dr: i8 = if me == 0 { 1 } else { -1 };
                    let start_rank = if me == 0 { 1 } else { 6 };
                    if let Some(one) = step(from, dr, 0) {
                        if self.sq[one as usize] == EMPTY {
                            self.push_pawn_moves(from, one, 0, false, false, &mut out);
                            if from >> 3 == start_rank {
                                if let Some(two) = step(one, dr, 0) {
                                    if self.sq[two as usize] == EMPTY {
                                        self.push_pawn_moves(from, two, 0, false, true, &mut out);
                                    }
                                }
                            }
                        }
                    }
                    for df in [-1i8, 1] {
                        if let Some(to) = step(from, dr, df) {
                            let t = self.sq[to as usize];
                            if t != EMPTY && color(t) != me {
                                self.push_pawn_moves(from, to, t, false, false, &mut out);
                            }
                            // en passant: only on the ply after the double push, pawn on its 5th rank
                            let ep_rank = if me == 0 { 4 } else { 3 };
                            if self.ep >= 0
                                && from >> 3 == ep_rank
                                && (to & 7) as i8 == self.ep
                                && t == EMPTY
                            {
                                let victim_sq = (from & !7) | (to & 7);
                                let victim = self.sq[victim_sq as usize];
                                if victim == (P | ((me ^ 1) << 3)) {
                                    self.push_pawn_moves(from, to, victim, true, false, &mut out);
                                }
                            }
                        }
                    }
                }
                N | K => {
                    let d = if kind(pc) == N { &KNIGHT_D } else { &KING_D };
                    for &(dr, df) in d {
                        if let Some(to) = step(from, dr, df) {
                            let t = self.sq[to as usize];
                            if t == EMPTY || color(t) != me {
                                out.push(Mv {
                                    from,
                                    to,
                                    promo: 0,
                                    castle: false,
                                    ep: false,
                                    double: false,
                                    captured: t,
                                    piece: pc,
                                });
                            }
                        }
                    }
                    if kind(pc) == K {
                        self.castling_moves(from, &mut out);
                    }
                }
                _ => {
                    let dirs: &[(i8, i8)] = match kind(pc) {
                        R => &ROOK_D,
                        B => &BISHOP_D,
                        _ => &KING_D,
                    };
                    for &(dr, df) in dirs {
                        let mut cur = from;
                        while let Some(to) = step(cur, dr, df) {
                            let t = self.sq[to as usize];
                            if t == EMPTY {
                                out.push(Mv {
                                    from,
                                    to,
                                    promo: 0,
                                    castle: false,
                                    ep: false,
                                    double: false,
                                    captured: 0,
                                    piece: pc,
                                });
                            } else {
                                if color(t) != me {
                                    out.push(Mv {
                                        from,
                                        to,
                                        promo: 0,
                                        castle: false,
                                        ep: false,
                                        double: false,
                                        captured: t,
                                        piece: pc,
                                    });
                                }
                                break;
                            }
                            cur = to;
                        }
                    }
                }
            }
        }
        out
    }

    /// Castling from first principles: right present, king and rook on their home squares,
    /// squares between them empty, king not in check, transit and destination not attacked.
    fn castling_moves(&self, from: u8, out: &mut Vec<Mv>) {
        let me = self.stm;
        let home: u8 = if me == 0 { 4 } else { 60 };
        if from != home {
            return;
        }
        let (ks, qs) = if me == 0 { (WK, WQ) } else { (BK, BQ) };
        let king = K | (me << 3);
        let rook = R | (me << 3);
        let opp = me ^ 1;
        if self.castle & ks != 0
            && self.sq[(home + 3) as usize] == rook
            && self.sq[(home + 1) as usize] == EMPTY
            && self.sq[(home + 2) as usize] == EMPTY
            && !self.attacked(home, opp)
            && !self.attacked(home + 1, opp)
            && !self.attacked(home + 2, opp)
        {
            out.push(Mv {
                from,
                to: home + 2,
                promo: 0,
                castle: true,
                ep: false,
                double: false,
                captured: 0,
                piece: king,
            });
        }
        if self.castle & qs != 0
            && self.sq[(home - 4) as usize] == rook
            && self.sq[(home - 1) as usize] == EMPTY
            && self.sq[(home - 2) as usize] == EMPTY
            && self.sq[(home - 3) as usize] == EMPTY
            && !self.attacked(home, opp)
            && !self.attacked(home - 1, opp)
            && !self.attacked(home - 2, opp)
        {
            out.push(Mv {
                from,
                to: home - 2,
                promo: 0,
                castle: true,
                ep: false,
                double: false,
                captured: 0,
                piece: king,
            });
        }
    }

    /// Applies a (pseudo-)legal move; returns the new position.
    pub fn make(&self, m: &Mv) -> Pos {
        let mut p = self.clone();
        let me = self.stm;
        let pc = self.sq[m.from as usize];
        p.sq[m.from as usize] = EMPTY;
        if m.ep {
            let victim_sq = (m.from & !7) | (m.to & 7);
            p.sq[victim_sq as usize] = EMPTY;
        }
        p.sq[m.to as usize] = if m.promo != 0 { m.promo | (me << 3) } else { pc };
        if m.castle {
            let (rf, rt) = if m.to > m.from {
                (m.from + 3, m.from + 1)
            } else {
                (m.from - 4, m.from - 1)
            };
            p.sq[rt as usize] = p.sq[rf as usize];
            p.sq[rf as usize] = EMPTY;
        }
        // castling rights: lost when the king moves, when a rook leaves its corner,
        // or when something lands on a rook's corner (capture); never regained.
        if kind(pc) == K {
            p.castle &= if me == 0 { !(WK | WQ) } else { !(BK | BQ) };
        }
        for s in [m.from, m.to] {
            match s {
                0 => p.castle &= !WQ,
                7 => p.castle &= !WK,
                56 => p.castle &= !BQ,
                63 => p.castle &= !BK,
                _ => {}
            }
        }
        p.ep = if m.double { (m.to & 7) as i8 } else { -1 };
        p.half = if kind(pc) == P || m.captured != 0 { 0 } else { self.half + 1 };
        if me == 1 {
            p.full = self.full + 1;
        }
        p.stm = me ^ 1;
        p
    }

    pub fn legal_moves(&self) -> Vec<Mv> {
        let me = self.stm;
        self.pseudo_moves()
            .into_iter()
            .filter(|m| !self.make(m).in_check(me))
            .collect()
    }

    pub fn perft(&self, depth: u32) -> u64 {
        if depth == 0 {
            return 1;
        }
        let moves = self.legal_moves();
        if depth == 1 {
            return moves.len() as u64;
        }
        moves.iter().map(|m| self.make(m).perft(depth - 1)).sum()
    }

    /// Colour mirror: ranks flipped, colours swapped, side to move swapped, rights swapped.
    pub fn mirror(&self) -> Pos {
        let mut sq = [EMPTY; 64];
        for s in 0..64usize {
            let pc = self.sq[s];
            if pc != EMPTY {
                let ms = (7 - (s >> 3)) * 8 + (s & 7);
                sq[ms] = pc ^ BLACK;
            }
        }
        let mut castle = 0;
        if self.castle & WK != 0 {
            castle |= BK;
        }
        if self.castle & WQ != 0 {
            castle |= BQ;
        }
        if self.castle & BK != 0 {
            castle |= WK;
        }
        if self.castle & BQ != 0 {
            castle |= WQ;
        }
        Pos {
            sq,
            stm: self.stm ^ 1,
            castle,
            ep: self.ep,
            half: self.half,
            full: self.full,
        }
    }

    /// Same placement, other side to move, en passant cleared.
    pub fn swap_side(&self) -> Pos {
        let mut p = self.clone();
        p.stm ^= 1;
        p.ep = -1;
        p
    }

    pub fn find_uci(&self, s: &str) -> Option<Mv> {
        self.legal_moves().into_iter().find(|m| m.uci() == s)
    }

    /// Basic sanity for generated positions: one king each, no pawns on back ranks,
    /// side not to move is not in check.
    pub fn is_sane(&self) -> bool {
        let wk = self.sq.iter().filter(|&&p| p == K).count();
        let bk = self.sq.iter().filter(|&&p| p == (K | BLACK)).count();
        if wk != 1 || bk != 1 {
            return false;
        }
        for f in 0..8 {
            for r in [0usize, 7] {
                if kind(self.sq[r * 8 + f]) == P {
                    return false;
                }
            }
        }
        // kings not adjacent is implied by: side not to move not in check
        !self.in_check(self.stm ^ 1)
    }
}

/// Known perft totals used to earn trust in the oracle at the start of a run.
pub const PERFT_SUITE: &[(&str, &[u64])] = &[
    (
        "rnbqkbnr/pppppppp/8/8/8/8/PPPPPPPP/RNBQKBNR w KQkq - 0 1",
        &[20, 400, 8902, 197_281],
    ),
    (
        "r3k2r/p1ppqpb1/bn2pnp1/3PN3/1p2P3/2N2Q1p/PPPBBPPP/R3K2R w KQkq - 0 1",
        &[48, 2039, 97_862],
    ),
    ("8/2p5/3p4/KP5r/1R3p1k/8/4P1P1/8 w - - 0 1", &[14, 191, 2812, 43_238, 674_624]),
    (
        "r3k2r/Pppp1ppp/1b3nbN/nP6/BBP1P3/q4N2/Pp1P2PP/R2Q1RK1 w kq - 0 1",
        &[6, 264, 9467, 422_333],
    ),
    (
        "rnbq1k1r/pp1Pbppp/2p5/8/2B5/8/PPP1NnPP/RNBQK2R w KQ - 1 8",
        &[44, 1486, 62_379],
    ),
    (
        "r4rk1/1pp1qppp/p1np1n2/2b1p1B1/2B1P1b1/P1NP1N2/1PP1QPPP/R4RK1 w - - 0 10",
        &[46, 2079, 89_890],
    ),
];

/// Full (slow) self check; `deep` adds the larger totals.
pub fn self_check(deep: bool) -> Result<u64, String> {
    let mut nodes = 0;
    for (fen, totals) in PERFT_SUITE {
        let p = Pos::from_fen(fen)?;
        if p.fen() != *fen {
            return Err(format!("oracle FEN round trip failed: '{}' -> '{}'", fen, p.fen()));
        }
        for (i, &t) in totals.iter().enumerate() {
            if !deep && t > 200_000 {
                continue;
            }
            let got = p.perft(i as u32 + 1);
            nodes += got;
            if got != t {
                return Err(format!("oracle perft({}) of '{}' = {}, published {}", i + 1, fen, got, t));
            }
        }
    }
    if deep {
        let p = Pos::startpos();
        let got = p.perft(5);
        nodes += got;
        if got != 4_865_609 {
            return Err(format!("oracle perft(5) startpos = {got}"));
        }
        let p = Pos::from_fen(PERFT_SUITE[1].0)?;
        let got = p.perft(4);
        nodes += got;
        if got != 4_085_603 {
            return Err(format!("oracle perft(4) kiwipete = {got}"));
        }
    }
    Ok(nodes)
}
