//! splitmix64: every random choice in the harness comes from here, seeded from VERIF_SEED.
#[derive(Clone)]
pub struct Rng(pub u64);

impl Rng {
    pub fn new(seed: u64) -> Rng {
        Rng(seed.wrapping_mul(0x9E37_79B9_7F4A_7C15) ^ 0xD1B5_4A32_D192_ED03)
    }
    pub fn derive(seed: u64, stream: u64) -> Rng {
        let mut r = Rng::new(seed ^ stream.wrapping_mul(0xA076_1D64_78BD_642F));
        r.next();
        r
    }
    pub fn next(&mut self) -> u64 {
        self.0 = self.0.wrapping_add(0x9E37_79B9_7F4A_7C15);
        let mut z = self.0;
        z = (z ^ (z >> 30)).wrapping_mul(0xBF58_476D_1CE4_E5B9);
        z = (z ^ (z >> 27)).wrapping_mul(0x94D0_49BB_1331_11EB);
        z ^ (z >> 31)
    }
    pub fn below(&mut self, n: u64) -> u64 {
        if n == 0 {
            0
        } else {
            self.next() % n
        }
    }
    pub fn chance(&mut self, num: u64, den: u64) -> bool {
        self.below(den) < num
    }
    pub fn pick<'a, T>(&mut self, v: &'a [T]) -> &'a T {
        &v[self.below(v.len() as u64) as usize]
    }
}
