//! C13 at the process boundary. The in-process monitor (search.rs) cuts a `Search` object by
//! budgets, clocks and its own flag; here the cut comes the way it comes in a game: a `stop` line
//! on stdin while the search thread runs, directly followed by the GUI's next commands. The
//! engine (hooks build, `RCE_VERIF_TTTRACE=1`) writes one `@@TT` line per cache write with the
//! id of the writing thread. Oracle: the writes of the first search thread of a session must be a
//! prefix of the writes the same search makes when nobody interrupts it (fresh process, same
//! position, same depth) - whatever was sent after the stop.
use super::corpus;
use super::out::{self, esc};
use super::rng::Rng;
use super::session::{Engine, Src, MAX_LINES_PER_STREAM};
use super::uci::{pool, random_game, spawn, Ctx};

const FOLLOW_UPS: &[(&str, &[&str], usize)] = &[
    // (name, lines written in ONE write after the delay, bestmoves expected in total)
    ("stop+position+go", &["stop", "@Q", "go depth 2"], 2),
    ("stop+go", &["stop", "go depth 2"], 2),
    ("stop+isready+go", &["stop", "isready", "go depth 3"], 2),
    ("stop+ucinewgame+position+go", &["stop", "ucinewgame", "@Q", "go depth 2"], 2),
    ("stop+stop+go+stop", &["stop", "stop", "go depth 3", "stop"], 2),
    ("stop", &["stop"], 1),
    ("go-without-stop", &["@Q", "go depth 2"], 1),
    ("stop+go-same-search", &["stop", "@SAME"], 2),
];

struct Trace {
    /// per search thread, in order of first appearance: the write signatures
    threads: Vec<(String, Vec<String>)>,
    truncated: bool,
}

fn parse_trace(e: &Engine) -> Trace {
    let mut threads: Vec<(String, Vec<String>)> = Vec::new();
    let mut err_lines = 0u64;
    for ev in &e.log {
        if ev.src != Src::Err {
            continue;
        }
        err_lines += 1;
        let Some(rest) = ev.line.strip_prefix("@@TT ") else { continue };
        // "<thread> <site> <key> n=<nodes> b=<budget> r=<running> | <entry>"
        let Some((head, entry)) = rest.split_once(" | ") else { continue };
        let f: Vec<&str> = head.split(' ').collect();
        if f.len() < 6 {
            continue;
        }
        // the running flag is read by the hook after the write: it may already be down for a
        // write that was decided while it was up, so it is not part of the signature
        let sig = format!("{} {} {} | {}", f[1], f[2], f[3], entry);
        match threads.iter_mut().find(|(t, _)| t == f[0]) {
            Some((_, v)) => v.push(sig),
            None => threads.push((f[0].to_string(), vec![sig])),
        }
    }
    Trace {
        threads,
        truncated: err_lines >= MAX_LINES_PER_STREAM,
    }
}

fn finish(e: &mut Engine) {
    e.send("quit");
    let _ = e.wait_exit(3_000);
    // everything the engine wrote to stderr before it exited
    let _ = e.wait_since(0, 2_000, |ev| ev.src == Src::ErrEof);
    if e.is_alive() {
        e.kill();
    }
}

/// The uninterrupted search: its write log and how long it took (go -> bestmove), in microseconds.
fn reference(ctx: &Ctx, env: &[(String, String)], pos_cmd: &str, go: &str) -> Option<(String, Vec<String>, u64)> {
    let mut e = spawn(ctx, env)?;
    e.send(pos_cmd);
    e.send("isready");
    e.wait_out(8_000, "readyok")?;
    let t0 = e.now_us();
    e.send(go);
    let done = e.wait_out(60_000, "bestmove");
    let dur = e.now_us() - t0;
    if done.is_none() {
        e.kill();
        return None;
    }
    finish(&mut e);
    let tr = parse_trace(&e);
    if tr.truncated || tr.threads.len() != 1 {
        return None;
    }
    let (tid, log) = tr.threads.into_iter().next().unwrap();
    Some((tid, log, dur))
}

pub fn run_c13_uci(ctx: &Ctx) -> Result<(), String> {
    let seeds: Vec<String> = corpus::all_seeds()?;
    let n = if ctx.tier == "thorough" { 480 } else { 48 };
    pool(ctx, n, |ctx, idx| job(ctx, idx, &seeds));
    Ok(())
}

fn job(ctx: &Ctx, idx: usize, seeds: &[String]) {
    let mut rng = Rng::derive(ctx.seed, 0xC13_5000 + idx as u64);
    let env = vec![("RCE_VERIF_TTTRACE".to_string(), "1".to_string())];
    let g = random_game(&mut rng, seeds, 14, true);
    let other = random_game(&mut rng, seeds, 10, true);
    let pos_cmd = g.command();
    // a search with enough writes for the cut to fall inside, small enough to trace
    let mut chosen = None;
    for depth in [4u32, 5, 3] {
        let go = format!("go depth {depth}");
        match reference(ctx, &env, &pos_cmd, &go) {
            Some((tid, log, dur)) if log.len() >= 150 && log.len() <= 25_000 => {
                chosen = Some((go, tid, log, dur));
                break;
            }
            Some((_, log, _)) if log.len() > 25_000 => continue,
            _ => {}
        }
    }
    let Some((go, ref_tid, ref_log, dur_us)) = chosen else {
        out::count("C13.session_positions_skipped_for_size", 1);
        return;
    };
    // determinism of the reference itself (otherwise the prefix rule proves nothing)
    match reference(ctx, &env, &pos_cmd, &go) {
        Some((tid, again, _)) if again == ref_log && tid == ref_tid => {}
        Some(_) => {
            out::inconclusive("C13 sessions: the uninterrupted search does not repeat its own write log (C16's business)", 1);
            return;
        }
        None => {
            out::inconclusive("C13 sessions: reference search could not be repeated", 1);
            return;
        }
    }
    out::count("C13.session_positions", 1);
    let attempts = if ctx.tier == "thorough" { 24 } else { 10 };
    for k in 0..attempts {
        let (name, lines, want_best) = FOLLOW_UPS[(k + idx) % FOLLOW_UPS.len()];
        let Some(mut e) = spawn(ctx, &env) else { return };
        e.send(&pos_cmd);
        e.send("isready");
        if e.wait_out(8_000, "readyok").is_none() {
            out::inconclusive("C13 sessions: no readyok", 1);
            e.kill();
            continue;
        }
        e.send(&go);
        // the cut: anywhere from the very start to just past the end of the search
        let delay = rng.below(dur_us + dur_us / 8 + 200);
        let t = std::time::Instant::now();
        while (t.elapsed().as_micros() as u64) < delay {
            std::hint::spin_loop();
        }
        let mut text = String::new();
        for l in lines {
            match *l {
                "@Q" => text.push_str(&other.command()),
                "@SAME" => text.push_str(&go),
                l => text.push_str(l),
            }
            text.push('\n');
        }
        e.send_raw(text.as_bytes());
        let mut got = 0;
        for _ in 0..want_best {
            if e.wait_out(30_000, "bestmove").is_some() {
                got += 1;
            }
        }
        finish(&mut e);
        if got < want_best {
            // a go that is never answered is C09's / C10's business
            out::inconclusive("C13 sessions: a bestmove did not arrive", 1);
        }
        let tr = parse_trace(&e);
        if tr.truncated {
            out::inconclusive("C13 sessions: trace truncated", 1);
            continue;
        }
        out::count("C13.evaluations", 1);
        out::count("C13.session_cuts", 1);
        out::count(&format!("C13.session_follow_up.{name}"), 1);
        // the thread of the first go has the id it has in the reference session (same commands up
        // to that go); a search stopped before its first write does not appear at all
        let first: &[String] = tr.threads.iter().find(|(t, _)| *t == ref_tid).map_or(&[], |(_, v)| v.as_slice());
        let mut common = 0;
        while common < first.len() && common < ref_log.len() && first[common] == ref_log[common] {
            common += 1;
        }
        if common > 0 && common < ref_log.len() {
            out::count("C13.session_cuts_inside_the_tree", 1);
            out::distinct("C13.nontrivial", &format!("{pos_cmd}|{go}|{common}"));
        }
        if out::want_sample() && k == 1 && idx % 7 == 0 {
            out::sample(format!(
                "C13 session: '{pos_cmd}' '{go}', {name} after {delay} us: first search thread wrote {} of the {} writes of the uninterrupted search; {} thread(s) wrote",
                first.len(),
                ref_log.len(),
                tr.threads.len()
            ));
        }
        if common < first.len() {
            let site = first[common].split(' ').next().unwrap_or("?").to_string();
            out::violation(
                "C13",
                &format!("session-write-from-unfinished-subtree-{site}"),
                format!(
                    "'{pos_cmd}' + '{go}', then after {delay} us in one write [{}]: the first search thread made {} cache write(s) that the uninterrupted search never makes at that point; first: [{}] (write #{common} of {}; the uninterrupted search makes {} writes and has [{}] there)",
                    text.trim_end().replace('\n', " / "),
                    first.len() - common,
                    first[common],
                    first.len(),
                    ref_log.len(),
                    ref_log.get(common).map_or("nothing more", String::as_str)
                ),
                format!(
                    "{{\"kind\":\"uci\",\"prop\":\"C13\",\"job\":{idx},\"position\":{},\"go\":{},\"follow_up\":{},\"delay_us\":{delay}}}",
                    esc(&pos_cmd),
                    esc(&go),
                    esc(name)
                ),
            );
        }
    }
}
