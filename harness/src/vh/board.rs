//! Board-level monitors (C01 C02 C03 C04 C05 C07 C17): the engine `Board` and the rules oracle
//! run in lock-step over exhaustive tree walks and long random games; each property's monitor
//! asserts its invariant at every node / make / unmake.
use std::collections::HashMap;
use std::sync::atomic::{AtomicU64, AtomicUsize, Ordering};
use std::sync::Mutex;

use crate::board::piece::Color;
use crate::board::zkey::ZKey;
use crate::board::{Board, Ply};
use crate::evaluate::simple_evaluator::SimpleEvaluator;
use crate::evaluate::Evaluator;

use super::corpus;
use super::eng::{self, key_u64};
use super::oracle::{self, describe_code, Ident, Mv, Pos};
use super::out::{self, esc};
use super::rng::Rng;

#[derive(Clone, Copy, PartialEq, Eq, Debug)]
pub enum Prop {
    C01,
    C02,
    C03,
    C04,
    C05,
    C07,
    C17,
}

impl Prop {
    pub fn name(self) -> &'static str {
        match self {
            Prop::C01 => "C01",
            Prop::C02 => "C02",
            Prop::C03 => "C03",
            Prop::C04 => "C04",
            Prop::C05 => "C05",
            Prop::C07 => "C07",
            Prop::C17 => "C17",
        }
    }
    pub fn parse(s: &str) -> Option<Prop> {
        Some(match s {
            "C01" => Prop::C01,
            "C02" => Prop::C02,
            "C03" => Prop::C03,
            "C04" => Prop::C04,
            "C05" => Prop::C05,
            "C07" => Prop::C07,
            "C17" => Prop::C17,
            _ => return None,
        })
    }
}

#[derive(Clone, Debug)]
pub enum JobKind {
    /// exhaustive walk to `depth` with at most `budget` nodes
    Walk { depth: u32, budget: u64 },
    /// one random game with shuffles and take-backs
    Game { stream: u64, max_plies: u32 },
    /// one game of more than a thousand plies (mostly quiet piece moves), then everything is
    /// taken back to the root: bounded buffers, counters and undo records far beyond the length
    /// of any game the other jobs play
    Marathon { stream: u64, plies: u32 },
}

#[derive(Clone, Debug)]
pub struct Job {
    pub id: usize,
    pub fen: String,
    pub kind: JobKind,
}

const SHARDS: usize = 64;

/// Process-wide maps for C04 (identity -> key) and C05 (key -> identity).
pub struct Global {
    ident_to_key: Vec<Mutex<HashMap<Ident, (u64, u32)>>>,
    key_to_ident: Vec<Mutex<HashMap<u64, Ident>>>,
    nontrivial: Vec<Mutex<std::collections::HashSet<u64>>>,
    pub nodes: AtomicU64,
}

impl Global {
    pub fn new() -> Global {
        Global {
            ident_to_key: (0..SHARDS).map(|_| Mutex::new(HashMap::new())).collect(),
            key_to_ident: (0..SHARDS).map(|_| Mutex::new(HashMap::new())).collect(),
            nontrivial: (0..SHARDS).map(|_| Mutex::new(std::collections::HashSet::new())).collect(),
            nodes: AtomicU64::new(0),
        }
    }
    fn hash_ident(id: &Ident, extra: u64) -> u64 {
        let mut h: u64 = 1469598103934665603 ^ extra.wrapping_mul(0x9E37_79B9_7F4A_7C15);
        for b in id {
            h = (h ^ u64::from(*b)).wrapping_mul(1099511628211);
        }
        h ^ (h >> 31)
    }
    /// Distinct non-trivial cases are counted by (position identity, extra) -- measured, not assumed.
    pub fn mark_nontrivial(&self, id: &Ident, extra: u64) {
        let h = Self::hash_ident(id, extra);
        self.nontrivial[(h >> 7) as usize % SHARDS].lock().unwrap().insert(h);
    }
    pub fn distinct_nontrivial(&self) -> u64 {
        self.nontrivial.iter().map(|s| s.lock().unwrap().len() as u64).sum()
    }
    fn shard_of_ident(id: &Ident) -> usize {
        let mut h: u64 = 1469598103934665603;
        for b in id {
            h = (h ^ u64::from(*b)).wrapping_mul(1099511628211);
        }
        (h >> 20) as usize % SHARDS
    }
    /// Returns Some(previous key) if the identity was already known under a different key.
    /// The u32 counts how many different paths (job ids) reached it.
    fn record_ident(&self, id: &Ident, key: u64, path_tag: u32) -> (Option<u64>, bool) {
        let mut g = self.ident_to_key[Self::shard_of_ident(id)].lock().unwrap();
        match g.get_mut(id) {
            Some((k, tag)) => {
                let other_path = *tag != path_tag;
                if other_path {
                    *tag = u32::MAX; // seen from >= 2 paths
                }
                if *k != key {
                    (Some(*k), other_path)
                } else {
                    (None, other_path)
                }
            }
            None => {
                g.insert(*id, (key, path_tag));
                (None, false)
            }
        }
    }
    /// Returns Some(other identity) if the key is already used by a different identity.
    fn record_key(&self, key: u64, id: &Ident) -> Option<Ident> {
        let mut g = self.key_to_ident[(key >> 17) as usize % SHARDS].lock().unwrap();
        match g.get(&key) {
            Some(other) if other != id => Some(*other),
            Some(_) => None,
            None => {
                g.insert(key, *id);
                None
            }
        }
    }
    pub fn distinct_idents(&self) -> (u64, u64) {
        let mut n = 0;
        let mut multi = 0;
        for s in &self.ident_to_key {
            let g = s.lock().unwrap();
            n += g.len() as u64;
            multi += g.values().filter(|(_, t)| *t == u32::MAX).count() as u64;
        }
        (n, multi)
    }
    pub fn distinct_keys(&self) -> u64 {
        self.key_to_ident.iter().map(|s| s.lock().unwrap().len() as u64).sum()
    }
}

pub fn ident_to_fen(id: &Ident) -> String {
    let mut sq = [0u8; 64];
    for i in 0..32 {
        sq[2 * i] = id[i] & 15;
        sq[2 * i + 1] = id[i] >> 4;
    }
    Pos {
        sq,
        stm: id[32],
        castle: id[33],
        ep: id[34] as i8 - 1,
        half: 0,
        full: 1,
    }
    .fen4()
}

/// Engine and oracle in lock-step along one line of play.
struct Lock<'a> {
    prop: Prop,
    g: &'a Global,
    job: &'a Job,
    b: Board,
    pstack: Vec<Pos>,
    path: Vec<String>,
    /// key of every position of the line, as the engine reported it when the position was current
    keys: Vec<u64>,
    zkeys: Vec<ZKey>,
    idents: Vec<Ident>,
    budget: u64,
    nodes: u64,
    local: Counters,
    /// C03 only: ask the live board (not a clone) for the legal moves before each move
    live_queries: bool,
}

#[derive(Default)]
struct Counters {
    nodes: u64,
    makes: u64,
    unmakes: u64,
    castles: u64,
    ep_captures: u64,
    ep_available_but_illegal: u64,
    promotions: u64,
    promo_captures: u64,
    checks: u64,
    double_checks: u64,
    mates: u64,
    stalemates: u64,
    repeated_nodes: u64,
    corner_rook_captures: u64,
    rights_changes: u64,
    ep_sets: u64,
    clock_resets: u64,
    gen_mismatch_skips: u64,
    evals: u64,
    fen_reloads: u64,
    twins: u64,
    takebacks: u64,
    shuffles: u64,
    games: u64,
    marathons: u64,
    marathon_unmakes_in_a_row: u64,
    longest_placement: u64,
    placements_over_64: u64,
    max_ply: u64,
    max_half: u64,
}

impl Counters {
    fn flush(&self, prop: Prop) {
        let p = prop.name();
        for (k, v) in [
            ("nodes", self.nodes),
            ("makes", self.makes),
            ("unmakes", self.unmakes),
            ("castling_moves", self.castles),
            ("ep_captures", self.ep_captures),
            ("ep_pseudo_but_illegal", self.ep_available_but_illegal),
            ("promotions", self.promotions),
            ("promotion_captures", self.promo_captures),
            ("positions_in_check", self.checks),
            ("double_checks", self.double_checks),
            ("mates", self.mates),
            ("stalemates", self.stalemates),
            ("nodes_with_current_position_in_record", self.repeated_nodes),
            ("corner_rook_captures", self.corner_rook_captures),
            ("plies_changing_rights", self.rights_changes),
            ("plies_setting_ep", self.ep_sets),
            ("plies_resetting_clock", self.clock_resets),
            ("skipped_generation_mismatch", self.gen_mismatch_skips),
            ("evaluations", self.evals),
            ("fen_reloads", self.fen_reloads),
            ("fens_compared_with_a_twin_reached_by_play", self.twins),
            ("takebacks", self.takebacks),
            ("shuffles", self.shuffles),
            ("games", self.games),
            ("marathon_games", self.marathons),
            ("fens_with_placement_text_over_64_chars", self.placements_over_64),
        ] {
            if v > 0 {
                out::count(&format!("{p}.{k}"), v);
            }
        }
        out::set_max(&format!("{p}.max_game_ply"), self.max_ply);
        out::set_max(&format!("{p}.max_unmakes_in_a_row"), self.marathon_unmakes_in_a_row);
        if self.longest_placement > 0 {
            out::set_max(&format!("{p}.max_placement_text_chars"), self.longest_placement);
        }
        out::set_max(&format!("{p}.max_halfmove_clock"), self.max_half);
    }
}

impl<'a> Lock<'a> {
    fn new(prop: Prop, g: &'a Global, job: &'a Job, budget: u64) -> Result<Lock<'a>, String> {
        let p = Pos::from_fen(&job.fen)?;
        let b = eng::load(&job.fen)?;
        let k = key_u64(b.zkey);
        let zk = b.zkey;
        let id = p.ident();
        Ok(Lock {
            prop,
            g,
            job,
            b,
            pstack: vec![p],
            path: Vec::new(),
            keys: vec![k],
            zkeys: vec![zk],
            idents: vec![id],
            budget,
            nodes: 0,
            local: Counters::default(),
            live_queries: false,
        })
    }

    fn p(&self) -> &Pos {
        self.pstack.last().unwrap()
    }

    fn replay(&self) -> String {
        format!(
            "{{\"kind\":\"board\",\"prop\":{},\"fen\":{},\"moves\":{},\"job\":{}}}",
            esc(self.prop.name()),
            esc(&self.job.fen),
            out::str_list(&self.path),
            self.job.id
        )
    }

    fn where_(&self) -> String {
        format!(
            "from '{}' after [{}] (now '{}')",
            self.job.fen,
            self.path.join(" "),
            self.p().fen()
        )
    }

    fn viol(&self, sig: &str, detail: String) {
        out::violation(self.prop.name(), sig, format!("{detail}; {}", self.where_()), self.replay());
    }

    /// Engine legal plies computed on a clone (so that monitors other than C02 do not depend on
    /// get_legal_moves leaving the live board untouched).
    fn engine_plies_cloned(&self) -> Vec<Ply> {
        self.b.clone().get_legal_moves()
    }

    fn current_in_record(&self) -> bool {
        let id = self.idents.last().unwrap();
        self.idents[..self.idents.len() - 1].contains(id)
    }

    // ------------------------------------------------------------------ C01
    fn c01_node(&mut self) {
        self.local.evals += 1;
        let p = self.p().clone();
        let oc = eng::oracle_codes(&p);
        let mut b2 = self.b.clone();
        let ec = eng::legal_codes(&mut b2);
        // asking the same board a second time must give the same answer (a query that leaves
        // something behind would show here, not in a walk that always moves on)
        let ec2 = eng::legal_codes(&mut b2);
        if ec2 != ec {
            let missing: Vec<String> = ec.iter().filter(|c| !ec2.contains(c)).map(|c| describe_code(*c)).collect();
            let extra: Vec<String> = ec2.iter().filter(|c| !ec.contains(c)).map(|c| describe_code(*c)).collect();
            self.viol(
                "second-query-differs",
                format!("asking the same board twice gives different legal moves: second answer lacks [{}] and adds [{}]", missing.join(" "), extra.join(" ")),
            );
        }
        let w_e = self.b.is_in_check(Color::White);
        let b_e = self.b.is_in_check(Color::Black);
        let w_o = p.in_check(0);
        let b_o = p.in_check(1);
        if w_e != w_o || b_e != b_o {
            self.viol(
                "check-status",
                format!("is_in_check(White)={w_e} rules {w_o}; is_in_check(Black)={b_e} rules {b_o}"),
            );
        }
        if ec.windows(2).any(|w| w[0] == w[1]) {
            let d: Vec<String> = ec.windows(2).filter(|w| w[0] == w[1]).map(|w| describe_code(w[0])).collect();
            self.viol("duplicate-move", format!("duplicate moves offered: {}", d.join(" ")));
        }
        if ec != oc {
            let missing: Vec<String> = oc.iter().filter(|c| !ec.contains(c)).map(|c| describe_code(*c)).collect();
            let extra: Vec<String> = ec.iter().filter(|c| !oc.contains(c)).map(|c| describe_code(*c)).collect();
            // classify: same from/to/promo set but different flags, or a different set of moves
            let strip = |v: &Vec<u32>| {
                let mut s: Vec<u32> = v.iter().map(|c| c & 0x7FFF).collect();
                s.sort_unstable();
                s.dedup();
                s
            };
            let sig = if strip(&ec) == strip(&oc) { "move-flags" } else { "move-set" };
            self.viol(
                sig,
                format!("legal moves differ: missing [{}] spurious [{}]", missing.join(" "), extra.join(" ")),
            );
        }
        // mate / stalemate consequence
        let me_in_check = if p.stm == 0 { w_e } else { b_e };
        if oc.is_empty() {
            if p.in_check(p.stm) {
                self.local.mates += 1;
            } else {
                self.local.stalemates += 1;
            }
            if ec.is_empty() && me_in_check != p.in_check(p.stm) {
                self.viol("mate-vs-stalemate", "terminal position classified differently".to_string());
            }
        }
        // attribution: every 64th node also through the FEN reader
        if self.nodes % 64 == 0 {
            if let Ok(mut fb) = eng::load(&p.fen()) {
                self.local.fen_reloads += 1;
                let fc = eng::legal_codes(&mut fb);
                if fc != oc && ec == oc {
                    self.viol(
                        "move-set-after-fen-load",
                        "position reached by play generates correctly, the same position loaded from FEN does not".to_string(),
                    );
                }
            }
        }
        // counters
        let trig = oc.iter().any(|c| (c >> 15) & 3 != 0 || (c >> 12) & 7 != 0) || w_o || b_o;
        if trig {
            self.g.mark_nontrivial(&p.ident(), 0);
        }
        if w_o || b_o {
            self.local.checks += 1;
            {
                let k = p.king_sq(p.stm).unwrap();
                if p.attackers(k, p.stm ^ 1) >= 2 {
                    self.local.double_checks += 1;
                }
            }
        }
        if p.ep >= 0 {
            let pseudo_ep = p.pseudo_moves().iter().filter(|m| m.ep).count();
            let legal_ep = oc.iter().filter(|c| (*c >> 16) & 1 == 1).count();
            if pseudo_ep > legal_ep {
                self.local.ep_available_but_illegal += 1;
            }
        }
    }

    // ------------------------------------------------------------------ C03
    fn c03_after_make(&mut self, before: &Pos, m: &Mv) {
        self.local.evals += 1;
        let p = self.p().clone();
        let e = eng::observe(&self.b);
        if let Some(d) = eng::diff(&e, &p) {
            let what = d.split(':').next().unwrap_or("").split(' ').next().unwrap_or("").to_string();
            self.viol(&format!("state-{what}"), format!("after {}: {d}", m.uci()));
        }
        // the record of earlier positions: exactly the earlier positions of this line
        let n = self.keys.len() - 1;
        let cur_key = self.keys[n];
        let mut expect: Vec<u64> = self.keys[..n].to_vec();
        expect.sort_unstable();
        expect.dedup();
        let mut got: Vec<u64> = self.b.verif_position_keys().iter().map(|k| key_u64(*k)).collect();
        got.sort_unstable();
        got.dedup();
        if got != expect {
            let missing = expect.iter().filter(|k| !got.contains(k)).count();
            let extra = got.iter().filter(|k| !expect.contains(k)).count();
            self.viol(
                "record-set",
                format!(
                    "after {}: record of earlier positions has {} keys, expected {} ({missing} missing, {extra} unexpected)",
                    m.uci(),
                    got.len(),
                    expect.len()
                ),
            );
        }
        let seen_before = self.current_in_record();
        let reached = self.b.position_reached(self.b.zkey);
        // (compare through keys: an earlier position with the same key counts as the same position)
        let key_seen_before = self.keys[..n].contains(&cur_key);
        if reached != key_seen_before {
            self.viol(
                "record-current",
                format!(
                    "after {}: position_reached(current)={reached}, but the current position {} earlier in this game",
                    m.uci(),
                    if seen_before { "occurred" } else { "did not occur" }
                ),
            );
        }
        for (i, k) in self.zkeys[..n].iter().enumerate() {
            if i % 7 == (n % 7) && !self.b.position_reached(*k) {
                self.viol("record-earlier", format!("after {}: earlier position #{i} is not remembered", m.uci()));
                break;
            }
        }
        if before.castle != p.castle {
            self.local.rights_changes += 1;
            self.g.mark_nontrivial(&p.ident(), u64::from(m.code()));
        }
        if p.ep >= 0 {
            self.local.ep_sets += 1;
        }
        if p.half == 0 {
            self.local.clock_resets += 1;
        }
        self.local.max_half = self.local.max_half.max(u64::from(p.half));
    }

    // ------------------------------------------------------------------ C04 / C05
    fn c04_check(&mut self, when: &str) {
        self.local.evals += 1;
        let inc = key_u64(self.b.zkey);
        let scratch = key_u64(ZKey::from(&self.b));
        if inc != scratch {
            self.viol(
                &format!("incremental-vs-scratch-{}", when.split(' ').next().unwrap_or("")),
                format!("{when}: incremental key {inc} != from-scratch key {scratch}"),
            );
        }
        let p = self.p().clone();
        if self.nodes % 4 == 0 {
            if let Ok(fb) = eng::load(&p.fen()) {
                self.local.fen_reloads += 1;
                let fk = key_u64(fb.zkey);
                if fk != scratch {
                    self.viol("fen-key", format!("{when}: key after FEN load {fk} != from-scratch key {scratch}"));
                }
            }
        }
        let id = p.ident();
        let n = self.keys.len();
        let parent = if n >= 2 { self.keys[n - 2] } else { 0x5EED ^ self.job.id as u64 };
        let mut tag = (parent ^ (parent >> 29)).wrapping_mul(0x9E37_79B9_7F4A_7C15) >> 33;
        if tag as u32 == u32::MAX {
            tag = 1;
        }
        let (prev, other_path) = self.g.record_ident(&id, inc, tag as u32);
        if other_path {
            self.g.mark_nontrivial(&id, 0);
        }
        if let Some(prev) = prev {
            self.viol(
                "path-dependence",
                format!("{when}: this position had key {prev} when reached another way, now {inc}"),
            );
        }
    }

    /// "Loading that position from FEN gives that key too", for the neighbours of a job's root that
    /// differ in rights / e.p. / side only: the key stored by the loader must be the from-scratch key.
    fn c04_root_variants(&mut self) {
        let p = self.p().clone();
        let mut rights_ok = 0u8;
        if p.sq[4] == oracle::K {
            if p.sq[7] == oracle::R {
                rights_ok |= oracle::WK;
            }
            if p.sq[0] == oracle::R {
                rights_ok |= oracle::WQ;
            }
        }
        if p.sq[60] == (oracle::K | 8) {
            if p.sq[63] == (oracle::R | 8) {
                rights_ok |= oracle::BK;
            }
            if p.sq[56] == (oracle::R | 8) {
                rights_ok |= oracle::BQ;
            }
        }
        for castle in 0..16u8 {
            if castle & !rights_ok != 0 {
                continue;
            }
            for stm in 0..2u8 {
                let q = Pos { sq: p.sq, stm, castle, ep: -1, half: p.half, full: p.full };
                if !q.is_sane() {
                    continue;
                }
                let fen = q.fen();
                let Ok(b) = eng::load(&fen) else { continue };
                self.local.evals += 1;
                self.local.fen_reloads += 1;
                let (k, sc) = (key_u64(b.zkey), key_u64(ZKey::from(&b)));
                if k != sc {
                    self.viol("fen-key-variant", format!("'{fen}': key after FEN load {k} != from-scratch key {sc}"));
                }
                let (prev, _) = self.g.record_ident(&q.ident(), k, 7);
                if let Some(prev) = prev {
                    self.viol("path-dependence", format!("'{fen}' loaded from FEN has key {k}, the same position had key {prev} when reached another way"));
                }
            }
        }
    }

    fn c05_check(&mut self) {
        self.local.evals += 1;
        let p = self.p().clone();
        let id = p.ident();
        let key = key_u64(self.b.zkey);
        if let Some(other) = self.g.record_key(key, &id) {
            self.viol(
                "collision-explored",
                format!("key {key} is shared by '{}' and '{}'", p.fen4(), ident_to_fen(&other)),
            );
        }
        if self.nodes % 32 == 0 {
            self.c05_block(&p);
        }
    }

    /// All 2 x 16 x 9 combinations of side, rights and e.p. state on the same placement must have
    /// 288 distinct keys; and on 8 sampled squares all 13 contents must give 13 distinct keys.
    fn c05_block(&mut self, p: &Pos) {
        let mut seen: HashMap<u64, String> = HashMap::new();
        let played_key = key_u64(self.b.zkey);
        let played_ident = p.ident();
        for stm in 0..2u8 {
            for castle in 0..16u8 {
                for ep in -1..8i8 {
                    let q = Pos {
                        sq: p.sq,
                        stm,
                        castle,
                        ep,
                        half: 0,
                        full: 1,
                    };
                    let fen = q.fen();
                    let Ok(b) = eng::load(&fen) else {
                        out::inconclusive("C05 perturbation FEN rejected by the reader", 1);
                        continue;
                    };
                    let k = key_u64(b.zkey);
                    // what was loaded must carry the key of what it now holds, component by component:
                    // a reader that drops or alters a component but keeps the key of the text (or the
                    // reverse) makes two different positions share a key one move later
                    if k != key_u64(ZKey::from(&b)) {
                        self.viol(
                            "perturbation-key-inconsistent",
                            format!("'{fen}': the key stored by the loader ({k}) is not the key of the position it holds ({}); observed components after loading: {}", key_u64(ZKey::from(&b)), eng::observe(&b).fen4()),
                        );
                    }
                    // the key the engine is actually using for the position on the board (maintained
                    // incrementally) must not be the key of one of its neighbours
                    if k == played_key && q.ident() != played_ident {
                        let comp = component_diff(p, &q);
                        self.viol(
                            &format!("collision-played-vs-neighbour-{comp}"),
                            format!("the position reached by play has key {played_key}, which is the key of the different position '{fen}'"),
                        );
                    }
                    if let Some(prev) = seen.insert(k, fen.clone()) {
                        let comp = component_diff(&Pos::from_fen(&prev).unwrap(), &q);
                        self.viol(
                            &format!("collision-component-{comp}"),
                            format!("'{prev}' and '{fen}' have the same key {k}"),
                        );
                    }
                }
            }
        }
        self.g.mark_nontrivial(&p.ident(), 0);
        self.local.evals += 288 + 8 * 11;
        let mut rng = Rng::derive(self.nodes, key_u64(self.b.zkey));
        for _ in 0..8 {
            let s = rng.below(64) as usize;
            let mut keys: HashMap<u64, u8> = HashMap::new();
            for pc in [0u8, 1, 2, 3, 4, 5, 6, 9, 10, 11, 12, 13, 14] {
                if oracle::kind(pc) == oracle::P && (s < 8 || s >= 56) {
                    continue;
                }
                let mut q = p.clone();
                // keep exactly one king each: do not overwrite kings, do not add kings
                if oracle::kind(q.sq[s]) == oracle::K || oracle::kind(pc) == oracle::K {
                    continue;
                }
                q.sq[s] = pc;
                q.ep = -1;
                let Ok(b) = eng::load(&q.fen()) else { continue };
                let k = key_u64(b.zkey);
                if let Some(prev) = keys.insert(k, pc) {
                    self.viol(
                        "collision-component-piece",
                        format!(
                            "'{}' on {} and '{}' on the same square give the same key {k} (placement '{}')",
                            oracle::piece_char(prev),
                            s,
                            oracle::piece_char(pc),
                            p.placement_fen()
                        ),
                    );
                }
            }
        }
    }

    // ------------------------------------------------------------------ C17
    fn c17_node(&mut self) {
        self.local.evals += 1;
        let p = self.p().clone();
        let ev = SimpleEvaluator;
        let e0 = ev.evaluate(&mut self.b.clone());
        let m = p.mirror();
        let s = p.swap_side();
        let (Ok(mut mb), Ok(mut sb)) = (eng::load(&m.fen()), eng::load(&s.fen())) else {
            out::inconclusive("C17 twin rejected by the FEN reader", 1);
            return;
        };
        let em = ev.evaluate(&mut mb);
        let es = ev.evaluate(&mut sb);
        if e0 != em {
            self.viol("mirror", format!("evaluate = {e0}, on the colour mirror '{}' = {em}", m.fen()));
        }
        // the same three evaluations once more on freshly loaded boards in a brand-new thread:
        // an evaluator that remembers things (per thread, per process, inside the board) must
        // still give the position's value, whatever was evaluated before and wherever
        if self.nodes % 199 == 0 {
            let (pf, mf, sf) = (p.fen(), m.fen(), s.fen());
            let fresh = std::thread::spawn(move || {
                let ev = SimpleEvaluator;
                let a = eng::load(&pf).ok().map(|mut b| ev.evaluate(&mut b));
                let b2 = eng::load(&mf).ok().map(|mut b| ev.evaluate(&mut b));
                let c = eng::load(&sf).ok().map(|mut b| ev.evaluate(&mut b));
                (a, b2, c)
            })
            .join()
            .unwrap_or((None, None, None));
            self.local.fen_reloads += 1;
            if let (Some(a), Some(b2), Some(c)) = fresh {
                if a != e0 {
                    self.viol("context-dependent", format!("evaluate on the board reached by play = {e0}, the same position freshly loaded and evaluated in a new thread = {a}"));
                }
                if a != b2 {
                    self.viol("mirror", format!("(fresh thread) evaluate = {a}, on the colour mirror '{}' = {b2}", m.fen()));
                }
                if i32::from(a) != -i32::from(c) {
                    self.viol("side-swap", format!("(fresh thread) evaluate = {a}, with the other side to move = {c}"));
                }
            }
        }
        if i32::from(e0) != -i32::from(es) {
            self.viol("side-swap", format!("evaluate = {e0}, with the other side to move = {es}"));
        }
        if e0 != 0 {
            self.g.mark_nontrivial(&p.ident(), 0);
        }
    }

    // ------------------------------------------------------------------ node dispatch
    fn at_node(&mut self) {
        self.nodes += 1;
        self.local.nodes += 1;
        self.local.max_ply = self.local.max_ply.max(self.path.len() as u64);
        if self.current_in_record() {
            self.local.repeated_nodes += 1;
        }
        match self.prop {
            Prop::C01 => self.c01_node(),
            Prop::C05 => self.c05_check(),
            Prop::C17 => self.c17_node(),
            Prop::C07 => self.c07_node(),
            _ => {}
        }
        if out::want_sample() && self.nodes % 997 == 1 {
            out::sample(format!("{} node: {}", self.prop.name(), self.where_()));
        }
    }

    /// make on both sides; returns false if the engine has no such move (generation mismatch)
    fn push(&mut self, ply: Ply, m: &Mv) {
        let before = self.p().clone();
        self.b.make_move(ply);
        let np = before.make(m);
        self.pstack.push(np);
        self.path.push(m.uci());
        self.keys.push(key_u64(self.b.zkey));
        self.zkeys.push(self.b.zkey);
        self.idents.push(self.p().ident());
        self.local.makes += 1;
        if m.castle {
            self.local.castles += 1;
        }
        if m.ep {
            self.local.ep_captures += 1;
        }
        if m.promo != 0 {
            self.local.promotions += 1;
            if m.captured != 0 {
                self.local.promo_captures += 1;
            }
        }
        if oracle::kind(m.captured) == oracle::R && [0u8, 7, 56, 63].contains(&m.to) {
            self.local.corner_rook_captures += 1;
        }
        match self.prop {
            Prop::C03 => self.c03_after_make(&before, m),
            Prop::C04 => self.c04_check(&format!("make {}", m.uci())),
            _ => {}
        }
    }

    fn pop(&mut self) {
        self.b.unmake_move();
        self.pstack.pop();
        let mv = self.path.pop().unwrap_or_default();
        self.keys.pop();
        self.zkeys.pop();
        self.idents.pop();
        self.local.unmakes += 1;
        if self.prop == Prop::C04 {
            self.c04_check(&format!("unmake {mv}"));
            // the key after unmake must be the key the position had before
            let k = key_u64(self.b.zkey);
            if k != *self.keys.last().unwrap() {
                self.viol(
                    "unmake-key",
                    format!("unmake {mv}: key {k} differs from the key {} this position had before the move", self.keys.last().unwrap()),
                );
            }
        }
    }

    fn walk(&mut self, depth: u32) {
        self.at_node();
        if depth == 0 || self.nodes >= self.budget {
            return;
        }
        let omoves = self.p().legal_moves();
        if self.prop == Prop::C02 {
            self.c02_expand(&omoves, depth);
            return;
        }
        let plies = self.engine_plies_cloned();
        for m in &omoves {
            let Some(ply) = plies.iter().find(|p| eng::ply_matches(p, m)) else {
                self.local.gen_mismatch_skips += 1;
                continue;
            };
            self.push(*ply, m);
            self.walk(depth - 1);
            self.pop();
            if self.nodes >= self.budget {
                break;
            }
        }
    }

    // ------------------------------------------------------------------ C02
    fn board_diff(a: &Board, snap: &Board) -> String {
        let ea = eng::observe(a);
        let es = eng::observe(snap);
        if let Some(d) = eng::diff(&ea, &es) {
            return format!("{d} [now vs before]");
        }
        if a.zkey != snap.zkey {
            return format!("position key: now {} before {}", a.zkey, snap.zkey);
        }
        let mut ka: Vec<u64> = a.verif_position_keys().iter().map(|k| key_u64(*k)).collect();
        let mut ks: Vec<u64> = snap.verif_position_keys().iter().map(|k| key_u64(*k)).collect();
        ka.sort_unstable();
        ks.sort_unstable();
        if ka != ks {
            return format!("record of earlier positions: now {} entries, before {}", ka.len(), ks.len());
        }
        if a.verif_history_len() != snap.verif_history_len() {
            return format!("undo stack: now {} entries, before {}", a.verif_history_len(), snap.verif_history_len());
        }
        "internal state differs (undo stack contents or piece sets) although all observable components agree".to_string()
    }

    fn diff_sig(d: &str) -> String {
        d.split(':').next().unwrap_or("state").split('[').next().unwrap_or("state").trim().replace(' ', "-")
    }

    fn c02_expand(&mut self, omoves: &[Mv], depth: u32) {
        let snap = self.b.clone();
        let legal_before = self.b.get_legal_moves(); // on the LIVE board
        self.local.evals += 1;
        if self.b != snap {
            let d = Self::board_diff(&self.b, &snap);
            self.viol(
                &format!("query-changes-{}", Self::diff_sig(&d)),
                format!("asking for the legal moves changed the position: {d}"),
            );
            self.b = snap.clone();
        }
        if self.current_in_record() || omoves.iter().any(|m| m.castle || m.ep || m.promo != 0) {
            let id = self.p().ident();
            self.g.mark_nontrivial(&id, u64::from(self.current_in_record()));
        }
        for m in omoves {
            let Some(ply) = legal_before.iter().find(|p| eng::ply_matches(p, m)) else {
                self.local.gen_mismatch_skips += 1;
                continue;
            };
            self.push(*ply, m);
            self.walk(depth - 1);
            self.pop();
            self.local.evals += 1;
            if self.b != snap {
                let d = Self::board_diff(&self.b, &snap);
                let class = if m.castle {
                    "castle"
                } else if m.ep {
                    "ep"
                } else if m.promo != 0 && m.captured != 0 {
                    "promotion-capture"
                } else if m.promo != 0 {
                    "promotion"
                } else if m.captured != 0 {
                    "capture"
                } else if m.double {
                    "double-push"
                } else {
                    "quiet"
                };
                self.viol(
                    &format!("unmake-{class}-{}", Self::diff_sig(&d)),
                    format!("make+unmake of {} did not restore the position: {d}", m.uci()),
                );
                self.b = snap.clone();
            }
            if self.nodes >= self.budget {
                break;
            }
        }
        if self.nodes < self.budget {
            let legal_after = self.b.get_legal_moves();
            self.b = snap.clone();
            if legal_after != legal_before {
                self.viol("legal-moves-changed", "legal moves before and after make/unmake of all moves differ".to_string());
            }
        }
    }

    // ------------------------------------------------------------------ C07
    fn c07_node(&mut self) {
        // always at the root of a job (so the start position and every corpus seed get their
        // counter / rights / ep overlays), otherwise every third node
        if self.nodes % 3 != 0 && !self.path.is_empty() {
            return;
        }
        let p = self.p().clone();
        let mut rng = Rng::derive(self.nodes ^ 0xC07, key_u64(self.b.zkey));
        // variants of the FEN for this placement: rights subsets consistent with placement,
        // e.p. squares that are really possible, counters over the whole range, 4- and 6-field.
        let mut rights_ok = 0u8;
        if p.sq[4] == oracle::K {
            if p.sq[7] == oracle::R {
                rights_ok |= oracle::WK;
            }
            if p.sq[0] == oracle::R {
                rights_ok |= oracle::WQ;
            }
        }
        if p.sq[60] == (oracle::K | 8) {
            if p.sq[63] == (oracle::R | 8) {
                rights_ok |= oracle::BK;
            }
            if p.sq[56] == (oracle::R | 8) {
                rights_ok |= oracle::BQ;
            }
        }
        let mut ep_files: Vec<i8> = vec![-1];
        // a pawn of the side that just moved on its 4th rank with the two squares behind it empty
        let (prank, behind1, behind2, pawn) = if p.stm == 0 {
            (4usize, 5usize, 6usize, oracle::P | 8)
        } else {
            (3usize, 2usize, 1usize, oracle::P)
        };
        for f in 0..8usize {
            if p.sq[prank * 8 + f] == pawn && p.sq[behind1 * 8 + f] == 0 && p.sq[behind2 * 8 + f] == 0 {
                ep_files.push(f as i8);
            }
        }
        // the walker's current position exactly as it stands: the one variant with a true twin
        let exact = p.fen();
        self.c07_one(&exact, &p, &mut rng);
        for _ in 0..4 {
            let mut q = p.clone();
            // random subset of the admissible rights
            q.castle = (rng.below(16) as u8) & rights_ok;
            q.ep = *rng.pick(&ep_files);
            q.half = match rng.below(4) {
                0 => 0,
                1 => rng.below(151) as u32,
                2 => 99 + rng.below(3) as u32,
                _ => rng.below(20) as u32,
            };
            q.full = match rng.below(4) {
                0 => 1,
                1 => 1 + rng.below(6000) as u32,
                2 => 6000,
                _ => 1 + rng.below(80) as u32,
            };
            // the e.p. candidate must not leave the side that just moved in check -- still valid
            if !q.is_sane() {
                continue;
            }
            let four = rng.chance(1, 4);
            if four {
                q.half = 0;
                q.full = 1;
            }
            let fen = if four { q.fen4() } else { q.fen() };
            self.c07_one(&fen, &q, &mut rng);
        }
    }

    fn c07_one(&mut self, fen: &str, q: &Pos, rng: &mut Rng) {
        self.local.evals += 1;
        self.local.fen_reloads += 1;
        if q.castle != 0 || q.ep >= 0 || q.half != 0 || q.full != 1 {
            self.g.mark_nontrivial(&q.ident(), (u64::from(q.half) << 20) | u64::from(q.full) | (u64::from(fen.split(' ').count() as u8) << 40));
        }
        let placement_len = fen.split(' ').next().map_or(0, str::len) as u64;
        self.local.longest_placement = self.local.longest_placement.max(placement_len);
        if placement_len > 64 {
            self.local.placements_over_64 += 1;
        }
        if out::want_sample() && self.local.fen_reloads % 501 == 1 {
            out::sample(format!("C07 FEN: {fen}"));
        }
        // second opinion: the oracle's own reader must read back what was written
        match Pos::from_fen(fen) {
            Ok(r) if r == *q => {}
            other => {
                out::harness_error(format!("oracle FEN writer/reader disagree on '{fen}': {other:?}"));
                return;
            }
        }
        let mut b = match eng::load(fen) {
            Ok(b) => b,
            Err(e) => {
                self.viol("fen-rejected", format!("valid FEN '{fen}' makes the reader panic: {e}"));
                return;
            }
        };
        let e = eng::observe(&b);
        if let Some(d) = eng::diff(&e, q) {
            let what = d.split(':').next().unwrap_or("").split(' ').next().unwrap_or("").to_string();
            self.viol(&format!("fen-{what}"), format!("FEN '{fen}': {d}"));
            return;
        }
        if key_u64(b.zkey) != key_u64(ZKey::from(&b)) {
            self.viol("fen-key-not-scratch", format!("FEN '{fen}': stored key differs from the from-scratch key"));
        }
        if !b.verif_position_keys().is_empty() {
            self.viol("fen-record-not-empty", format!("FEN '{fen}': a freshly loaded position remembers earlier positions"));
        }
        // "From then on behaves identically to the same position reached by play": decided against
        // the engine's OWN board reached by play whenever this FEN is exactly the walker's current
        // position (a true twin exists). For the perturbed variants no twin exists; there the loaded
        // board is checked for internal consistency only (key, take-back to the loaded root), so
        // that rule or bookkeeping faults (C01, C03) are not reported under C07.
        let mut twin: Option<Board> = if *q == *self.p() { Some(self.b.clone()) } else { None };
        if let Some(t) = &twin {
            self.local.twins += 1;
            if let Some(d) = eng::diff(&eng::observe(&b), &eng::observe(t)) {
                self.viol("fen-vs-play-state", format!("FEN '{fen}': loaded position differs from the same position reached by play: {d}"));
                return;
            }
            if key_u64(b.zkey) != key_u64(t.zkey) {
                self.viol("fen-key-vs-play", format!("FEN '{fen}': key differs from the key of the same position reached by play"));
            }
            if eng::legal_codes(&mut b.clone()) != eng::legal_codes(&mut t.clone()) {
                self.viol("fen-legal-moves-vs-play", format!("FEN '{fen}': legal moves differ from those of the same position reached by play"));
                return;
            }
        } else if eng::legal_codes(&mut b.clone()) != eng::oracle_codes(q) {
            // components are right (checked above) but the moves are not those of the rules: C01's business
            out::inconclusive("C07: loaded position has the written components but its legal moves differ from the rules (C01's business)", 1);
            return;
        }
        // play 1..3 random moves, compare with the twin after each, then take everything back
        let root = b.clone();
        let mut played = 0;
        for _ in 0..(1 + rng.below(3)) {
            let plies = b.clone().get_legal_moves();
            if plies.is_empty() {
                break;
            }
            let ply = *rng.pick(&plies);
            let name = ply.to_notation();
            if let Some(t) = twin.as_mut() {
                let tp = t.clone().get_legal_moves();
                let Some(same) = tp.iter().find(|x| eng::ply_code(x) == eng::ply_code(&ply)) else {
                    self.viol("fen-then-play-legal-moves", format!("FEN '{fen}': after {played} moves the loaded board offers {name}, the board reached by play does not"));
                    return;
                };
                t.make_move(*same);
            }
            b.make_move(ply);
            played += 1;
            if key_u64(b.zkey) != key_u64(ZKey::from(&b)) {
                self.viol("fen-then-play-key", format!("FEN '{fen}' then {name}: incremental key != from-scratch key"));
                return;
            }
            if let Some(t) = &twin {
                if let Some(d) = eng::diff(&eng::observe(&b), &eng::observe(t)) {
                    let what = d.split(':').next().unwrap_or("").split(' ').next().unwrap_or("").to_string();
                    self.viol(&format!("fen-then-play-{what}"), format!("FEN '{fen}' then {name}: differs from the same game continued on the board reached by play: {d}"));
                    return;
                }
                if key_u64(b.zkey) != key_u64(t.zkey) {
                    self.viol("fen-then-play-key-vs-play", format!("FEN '{fen}' then {name}: key differs from the board reached by play"));
                    return;
                }
                if eng::legal_codes(&mut b.clone()) != eng::legal_codes(&mut t.clone()) {
                    self.viol("fen-then-play-legal-moves", format!("FEN '{fen}' then {name}: legal moves differ from the board reached by play"));
                    return;
                }
            }
        }
        for _ in 0..played {
            b.unmake_move();
        }
        if b != root {
            let d = Self::board_diff(&b, &root);
            self.viol("fen-then-unmake", format!("FEN '{fen}': playing {played} moves and taking them back does not restore the loaded position: {d}"));
        }
    }

    // ------------------------------------------------------------------ random games
    fn weight(m: &Mv) -> u64 {
        let mut w = 1;
        if m.castle {
            w += 8;
        }
        if m.ep {
            w += 12;
        }
        if m.promo != 0 {
            w += 5;
        }
        if m.captured != 0 {
            w += 1;
        }
        if oracle::kind(m.captured) == oracle::R && [0u8, 7, 56, 63].contains(&m.to) {
            w += 8;
        }
        if m.double {
            w += 1;
        }
        if oracle::kind(m.piece) == oracle::P {
            w += 1;
        }
        w
    }

    fn choose(&self, rng: &mut Rng, moves: &[Mv]) -> Mv {
        let total: u64 = moves.iter().map(Self::weight).sum();
        let mut r = rng.below(total);
        for m in moves {
            let w = Self::weight(m);
            if r < w {
                return *m;
            }
            r -= w;
        }
        moves[0]
    }

    /// plays one move (oracle-chosen); false if impossible
    fn step(&mut self, m: &Mv) -> bool {
        let plies = if self.prop == Prop::C03 && self.live_queries {
            // the way the engine's own `position` command applies a move list: find the move among
            // the legal moves of the live board, then make it
            self.b.get_legal_moves()
        } else if self.prop == Prop::C02 {
            let snap = self.b.clone();
            let l = self.b.get_legal_moves();
            if self.b != snap {
                let d = Self::board_diff(&self.b, &snap);
                self.viol(
                    &format!("query-changes-{}", Self::diff_sig(&d)),
                    format!("asking for the legal moves changed the position: {d}"),
                );
                self.b = snap;
            }
            l
        } else {
            self.engine_plies_cloned()
        };
        let Some(ply) = plies.iter().find(|p| eng::ply_matches(p, m)) else {
            self.local.gen_mismatch_skips += 1;
            return false;
        };
        self.push(*ply, m);
        true
    }

    fn game(&mut self, stream: u64, max_plies: u32, seed: u64) {
        let mut rng = Rng::derive(seed, stream);
        self.live_queries = stream % 2 == 1;
        if self.live_queries {
            out::count("C03.games_with_live_board_queries", u64::from(self.prop == Prop::C03));
        }
        self.local.games += 1;
        let probe_every = 3 + rng.below(4);
        let mut plies_played = 0u32;
        while plies_played < max_plies && self.nodes < self.budget {
            // monitors at this node (a one-ply walk every few plies, the node monitor always)
            if u64::from(plies_played) % probe_every == 0 && matches!(self.prop, Prop::C01 | Prop::C02 | Prop::C04) {
                self.walk(1);
            } else {
                self.at_node();
            }
            let moves = self.p().legal_moves();
            // one game in five keeps going through very long quiet stretches (clock up to 300)
            let half_cap = if stream % 5 == 0 { 300 } else { 160 };
            if moves.is_empty() || self.p().half >= half_cap {
                break;
            }
            let units = self.p().sq.iter().filter(|&&x| x != 0).count();
            if units <= 2 {
                break;
            }
            // take-back: unmake k plies and go another way
            if self.prop != Prop::C03 && self.path.len() >= 2 && rng.chance(1, 14) {
                let k = 1 + rng.below((self.path.len() as u64).min(6));
                for _ in 0..k {
                    self.pop();
                }
                self.local.takebacks += 1;
                continue;
            }
            // shuffle: a reversible move and its inverse by both sides, twice => repetition
            if rng.chance(1, 10) {
                if self.shuffle(&mut rng) {
                    plies_played += 8;
                    continue;
                }
            }
            let m = self.choose(&mut rng, &moves);
            if !self.step(&m) {
                break;
            }
            plies_played += 1;
        }
        self.at_node();
    }

    /// A very long game and its complete take-back. Monitors run at sparse nodes and densely
    /// around round game lengths (multiples of 256 and of 500 plies).
    fn marathon(&mut self, stream: u64, target: u32, seed: u64) {
        let mut rng = Rng::derive(seed, 0x3A2A_0000 + stream);
        self.live_queries = stream % 2 == 1;
        self.local.marathons += 1;
        let probe_every = 16 + rng.below(17) as usize;
        let dense = |len: usize| (len + 2) % 256 < 5 || (len + 2) % 500 < 5;
        let root = self.b.clone();
        let mut snaps: Vec<(usize, Board)> = Vec::new();
        while self.path.len() < target as usize && self.nodes < self.budget {
            let len = self.path.len();
            if len % probe_every == 0 || dense(len) {
                if matches!(self.prop, Prop::C01 | Prop::C02 | Prop::C04) {
                    self.walk(1);
                } else {
                    self.at_node();
                }
            }
            if self.prop == Prop::C02 && len % 64 == 0 {
                snaps.push((len, self.b.clone()));
            }
            let moves = self.p().legal_moves();
            if moves.is_empty() {
                break;
            }
            let quiet = Self::reversible(self.p());
            let m = if !quiet.is_empty() && rng.chance(15, 16) { *rng.pick(&quiet) } else { self.choose(&mut rng, &moves) };
            if !self.step(&m) {
                break;
            }
        }
        self.at_node();
        if self.prop == Prop::C03 {
            return;
        }
        // everything back, in one go
        let mut in_a_row = 0u64;
        while !self.path.is_empty() {
            self.pop();
            in_a_row += 1;
            let len = self.path.len();
            if self.prop == Prop::C02 {
                if let Some((l, snap)) = snaps.last() {
                    if *l == len {
                        self.local.evals += 1;
                        if self.b != *snap {
                            let d = Self::board_diff(&self.b, snap);
                            self.viol(
                                &format!("long-takeback-{}", Self::diff_sig(&d)),
                                format!("after {in_a_row} take-backs in a row the position at ply {len} is not what it was when first reached: {d}"),
                            );
                        }
                        snaps.pop();
                    }
                }
            }
            if len % (probe_every * 4) == 0 || dense(len) {
                if matches!(self.prop, Prop::C01 | Prop::C02 | Prop::C04) {
                    self.walk(1);
                } else {
                    self.at_node();
                }
            }
        }
        self.local.marathon_unmakes_in_a_row = self.local.marathon_unmakes_in_a_row.max(in_a_row);
        if self.prop == Prop::C02 && self.b != root {
            let d = Self::board_diff(&self.b, &root);
            self.viol(&format!("long-takeback-root-{}", Self::diff_sig(&d)), format!("after taking back the whole game ({in_a_row} plies) the root position differs: {d}"));
        }
    }

    fn reversible(p: &Pos) -> Vec<Mv> {
        p.legal_moves()
            .into_iter()
            .filter(|m| {
                oracle::kind(m.piece) != oracle::P
                    && m.captured == 0
                    && !m.castle
                    // must not change castling rights: kings and rooks on home squares excluded
                    && p.make(m).castle == p.castle
            })
            .collect()
    }

    fn shuffle(&mut self, rng: &mut Rng) -> bool {
        let start_len = self.path.len();
        let p0 = self.p().clone();
        let a = Self::reversible(&p0);
        if a.is_empty() {
            return false;
        }
        let m1 = *rng.pick(&a);
        let p1 = p0.make(&m1);
        let bm = Self::reversible(&p1);
        if bm.is_empty() {
            return false;
        }
        let r1 = *rng.pick(&bm);
        let p2 = p1.make(&r1);
        let back1 = Mv { from: m1.to, to: m1.from, ..m1 };
        let back2 = Mv { from: r1.to, to: r1.from, ..r1 };
        // the inverse moves must be legal
        if !p2.legal_moves().iter().any(|m| m.from == back1.from && m.to == back1.to) {
            return false;
        }
        let p3 = p2.make(&back1);
        if !p3.legal_moves().iter().any(|m| m.from == back2.from && m.to == back2.to) {
            return false;
        }
        // two to four rounds: the position comes back for the third to the fifth time
        let rounds = 2 + rng.below(3);
        for _ in 0..rounds {
            for m in [m1, r1, back1, back2] {
                let legal = self.p().legal_moves();
                let Some(real) = legal.iter().find(|x| x.from == m.from && x.to == m.to && x.promo == 0) else {
                    // should not happen; unwind what was played
                    while self.path.len() > start_len {
                        self.pop();
                    }
                    return false;
                };
                let real = *real;
                // monitors at the intermediate nodes as well
                if self.prop == Prop::C02 {
                    self.walk(1);
                } else {
                    self.at_node();
                }
                if !self.step(&real) {
                    return false;
                }
            }
        }
        self.local.shuffles += 1;
        true
    }
}

fn component_diff(a: &Pos, b: &Pos) -> &'static str {
    let mut n = 0;
    let mut which = "none";
    if a.stm != b.stm {
        n += 1;
        which = "side";
    }
    if a.castle != b.castle {
        n += 1;
        which = "rights";
    }
    if a.ep != b.ep {
        n += 1;
        which = "ep";
    }
    if n > 1 {
        "mixed"
    } else {
        which
    }
}

// ---------------------------------------------------------------------------
// job construction and the thread pool
// ---------------------------------------------------------------------------

pub struct Plan {
    pub jobs: Vec<Job>,
    pub per_job_budget: u64,
}

pub fn plan(prop: Prop, tier: &str, seed: u64) -> Result<Plan, String> {
    let seeds = corpus::all_seeds()?;
    let thorough = tier == "thorough";
    let mut jobs = Vec::new();
    let mut id = 0;
    // per-property sizing (nodes are cheapest for C17/C03, dearest for C02/C05/C07)
    let (walk_depth, walk_budget, n_games, game_plies): (u32, u64, u64, u32) = match (prop, thorough) {
        (Prop::C01, false) => (3, 150_000, 8_000, 300),
        (Prop::C01, true) => (4, 2_500_000, 120_000, 400),
        (Prop::C02, false) => (3, 120_000, 8_000, 300),
        (Prop::C02, true) => (4, 2_000_000, 120_000, 400),
        (Prop::C03, false) => (3, 40_000, 40_000, 400),
        (Prop::C03, true) => (4, 600_000, 800_000, 400),
        (Prop::C04, false) => (3, 150_000, 15_000, 300),
        (Prop::C04, true) => (4, 2_500_000, 250_000, 400),
        (Prop::C05, false) => (3, 60_000, 6_000, 250),
        (Prop::C05, true) => (4, 800_000, 100_000, 300),
        (Prop::C07, false) => (3, 30_000, 5_000, 250),
        (Prop::C07, true) => (4, 500_000, 80_000, 300),
        (Prop::C17, false) => (3, 100_000, 20_000, 300),
        (Prop::C17, true) => (4, 2_000_000, 400_000, 400),
    };
    for fen in &seeds {
        jobs.push(Job {
            id,
            fen: fen.clone(),
            kind: JobKind::Walk {
                depth: walk_depth,
                budget: walk_budget,
            },
        });
        id += 1;
    }
    // a position with an en passant square may come with any fifty-move counter (an editor, a
    // GUI that keeps its own counter): every such seed is also walked with a counter of 3 and 57
    for fen in &seeds {
        let Ok(mut p) = Pos::from_fen(fen) else { continue };
        if p.ep < 0 || p.half != 0 {
            continue;
        }
        for half in [3u32, 57] {
            p.half = half;
            jobs.push(Job {
                id,
                fen: p.fen(),
                kind: JobKind::Walk {
                    depth: 2,
                    budget: walk_budget / 8,
                },
            });
            id += 1;
        }
    }
    let mut rng = Rng::derive(seed, 0xB0A2D);
    for gidx in 0..n_games {
        let fen = match rng.below(11) {
            0..=3 => seeds[0].clone(),
            4..=7 => rng.pick(&seeds).clone(),
            8 => {
                // crowded position with the longest possible placement text
                let mut tries = 0;
                loop {
                    tries += 1;
                    if let Some(p) = corpus::random_dense(&mut rng) {
                        break p.fen();
                    }
                    if tries > 400 {
                        break seeds[0].clone();
                    }
                }
            }
            _ => {
                // random sparse endgame
                let mut tries = 0;
                loop {
                    tries += 1;
                    if let Some(p) = corpus::random_sparse(&mut rng, 7) {
                        if !p.legal_moves().is_empty() {
                            break p.fen();
                        }
                    }
                    if tries > 200 {
                        break seeds[0].clone();
                    }
                }
            }
        };
        jobs.push(Job {
            id,
            fen,
            kind: JobKind::Game {
                stream: gidx + 1,
                max_plies: game_plies,
            },
        });
        id += 1;
    }
    // marathons: from the start position and from a few non-terminal seeds
    let n_marathons = if thorough { 400 } else { 24 };
    for midx in 0..n_marathons {
        let fen = if midx % 3 == 0 { seeds[0].clone() } else { rng.pick(&seeds).clone() };
        jobs.push(Job {
            id,
            fen,
            kind: JobKind::Marathon {
                stream: midx + 1,
                plies: 1_030 + rng.below(if midx % 4 == 3 { 1_300 } else { 300 }) as u32,
            },
        });
        id += 1;
    }
    Ok(Plan {
        jobs,
        per_job_budget: walk_budget,
    })
}

pub fn run_job(prop: Prop, g: &Global, job: &Job, seed: u64) {
    let budget = match job.kind {
        JobKind::Walk { budget, .. } => budget,
        JobKind::Game { max_plies, .. } => u64::from(max_plies) * 60,
        JobKind::Marathon { plies, .. } => u64::from(plies) * 40,
    };
    let mut l = match Lock::new(prop, g, job, budget) {
        Ok(l) => l,
        Err(e) => {
            // a corpus FEN that the engine's reader rejects: C07's business, inconclusive elsewhere
            if prop == Prop::C07 {
                out::violation("C07", "fen-rejected", format!("valid FEN '{}' rejected: {e}", job.fen), String::new());
            } else {
                out::inconclusive("seed FEN rejected by the engine's reader", 1);
            }
            return;
        }
    };
    if prop == Prop::C04 {
        l.c04_check("load");
        l.c04_root_variants();
    }
    match job.kind {
        JobKind::Walk { depth, .. } => l.walk(depth),
        JobKind::Game { stream, max_plies } => l.game(stream, max_plies, seed),
        JobKind::Marathon { stream, plies } => l.marathon(stream, plies, seed),
    }
    l.local.flush(prop);
    g.nodes.fetch_add(l.nodes, Ordering::Relaxed);
}

pub fn run(prop: Prop, tier: &str, seed: u64, threads: usize, only_job: Option<usize>, time_cap_s: u64) -> Result<(), String> {
    let plan = plan(prop, tier, seed)?;
    let g = Global::new();
    let next = AtomicUsize::new(0);
    let jobs: Vec<Job> = match only_job {
        Some(j) => plan.jobs.iter().filter(|x| x.id == j).cloned().collect(),
        None => plan.jobs.clone(),
    };
    let started = std::time::Instant::now();
    let skipped = AtomicU64::new(0);
    std::thread::scope(|s| {
        for _ in 0..threads.max(1) {
            s.spawn(|| loop {
                let i = next.fetch_add(1, Ordering::Relaxed);
                if i >= jobs.len() {
                    break;
                }
                if started.elapsed().as_secs() > time_cap_s {
                    skipped.fetch_add(1, Ordering::Relaxed);
                    continue;
                }
                let job = &jobs[i];
                let r = std::panic::catch_unwind(std::panic::AssertUnwindSafe(|| run_job(prop, &g, job, seed)));
                if let Err(e) = r {
                    let msg = eng::panic_text(&e);
                    let loc = super::last_panic_location();
                    if loc.contains("src/vh/") {
                        out::harness_error(format!("harness panic at {loc}: {msg} (job {} '{}')", job.id, job.fen));
                    } else {
                        out::violation(
                            prop.name(),
                            &format!("panic@{loc}"),
                            format!("engine panicked at {loc}: {msg} during job {} from '{}' ({:?})", job.id, job.fen, job.kind),
                            format!("{{\"kind\":\"board\",\"prop\":{},\"fen\":{},\"moves\":[],\"job\":{}}}", esc(prop.name()), esc(&job.fen), job.id),
                        );
                    }
                }
            });
        }
    });
    let (idents, multi) = g.distinct_idents();
    out::count(&format!("{}.jobs", prop.name()), jobs.len() as u64 - skipped.load(Ordering::Relaxed));
    if skipped.load(Ordering::Relaxed) > 0 {
        out::inconclusive("jobs not started because the time cap was reached", skipped.load(Ordering::Relaxed));
    }
    if prop == Prop::C04 {
        out::count("C04.distinct_identities", idents);
        out::count("C04.identities_reached_by_2plus_paths", multi);
    }
    if prop == Prop::C05 {
        out::count("C05.distinct_keys", g.distinct_keys());
    }
    out::count(&format!("{}.nontrivial", prop.name()), g.distinct_nontrivial());
    Ok(())
}
