//! Session driver: runs the real engine binary, records every stdin line, stdout line, stderr
//! line (incl. `@@EVT` hook events) with one monotonic clock, and lets monitors wait on the history.
use std::io::{BufRead, BufReader, Write};
use std::process::{Child, ChildStdin, Command, ExitStatus, Stdio};
use std::sync::mpsc::{channel, Receiver, RecvTimeoutError};
use std::time::{Duration, Instant};

#[derive(Clone, Copy, PartialEq, Eq, Debug)]
pub enum Src {
    In,
    Out,
    Err,
    OutEof,
    ErrEof,
}

#[derive(Clone, Debug)]
pub struct Event {
    pub t_us: u64,
    pub src: Src,
    pub line: String,
}

/// A flood (e.g. an endless error loop) is drained but no longer recorded after this many lines.
pub const MAX_LINES_PER_STREAM: u64 = 40_000;

pub struct Engine {
    child: Child,
    stdin: Option<ChildStdin>,
    rx: Receiver<Event>,
    pub t0: Instant,
    pub log: Vec<Event>,
    /// index into `log` of the first event not yet consumed by `wait_for`
    cursor: usize,
    /// the engine's stdout reached end of file (the process is gone or going)
    pub out_closed: bool,
    disconnected: bool,
}

impl Engine {
    pub fn spawn(path: &str, env: &[(String, String)]) -> Result<Engine, String> {
        // VH_PIN_CPU=<n> (given through `env`) runs the engine with all its threads on one CPU
        // (taskset), so that the two threads are time-sliced against each other instead of running
        // side by side: a different family of interleavings
        let pin = env.iter().find(|(k, _)| k == "VH_PIN_CPU").map(|(_, v)| v.clone());
        let mut cmd = match &pin {
            Some(cpu) => {
                let mut c = Command::new("taskset");
                c.arg("-c").arg(cpu).arg(path);
                c
            }
            None => Command::new(path),
        };
        cmd.stdin(Stdio::piped()).stdout(Stdio::piped()).stderr(Stdio::piped());
        for (k, v) in env {
            cmd.env(k, v);
        }
        let mut child = cmd.spawn().map_err(|e| format!("cannot start {path}: {e}"))?;
        let t0 = Instant::now();
        let (tx, rx) = channel();
        let out = child.stdout.take().unwrap();
        let err = child.stderr.take().unwrap();
        let tx1 = tx.clone();
        std::thread::spawn(move || {
            let mut r = BufReader::new(out);
            let mut buf = Vec::new();
            let mut n = 0u64;
            loop {
                buf.clear();
                match r.read_until(b'\n', &mut buf) {
                    Ok(0) | Err(_) => break,
                    Ok(_) => {
                        n += 1;
                        if n > MAX_LINES_PER_STREAM {
                            continue; // keep draining so the engine never blocks, but stop recording
                        }
                        let line = String::from_utf8_lossy(&buf).trim_end_matches(['\n', '\r']).to_string();
                        if tx1
                            .send(Event {
                                t_us: t0.elapsed().as_micros() as u64,
                                src: Src::Out,
                                line,
                            })
                            .is_err()
                        {
                            return;
                        }
                    }
                }
            }
            let _ = tx1.send(Event {
                t_us: t0.elapsed().as_micros() as u64,
                src: Src::OutEof,
                line: String::new(),
            });
        });
        std::thread::spawn(move || {
            let mut r = BufReader::new(err);
            let mut buf = Vec::new();
            let mut n = 0u64;
            loop {
                buf.clear();
                match r.read_until(b'\n', &mut buf) {
                    Ok(0) | Err(_) => break,
                    Ok(_) => {
                        n += 1;
                        if n > MAX_LINES_PER_STREAM {
                            continue;
                        }
                        let line = String::from_utf8_lossy(&buf).trim_end_matches(['\n', '\r']).to_string();
                        if tx
                            .send(Event {
                                t_us: t0.elapsed().as_micros() as u64,
                                src: Src::Err,
                                line,
                            })
                            .is_err()
                        {
                            return;
                        }
                    }
                }
            }
            let _ = tx.send(Event {
                t_us: t0.elapsed().as_micros() as u64,
                src: Src::ErrEof,
                line: String::new(),
            });
        });
        Ok(Engine {
            stdin: child.stdin.take(),
            child,
            rx,
            t0,
            log: Vec::new(),
            cursor: 0,
            out_closed: false,
            disconnected: false,
        })
    }

    /// CPU time (user + system, clock ticks) the engine process has used so far, from /proc.
    pub fn cpu_ticks(&self) -> Option<u64> {
        let stat = std::fs::read_to_string(format!("/proc/{}/stat", self.child.id())).ok()?;
        // fields after the closing parenthesis of the command name: state is #3, utime #14, stime #15
        let rest = stat.rsplit_once(')')?.1;
        let f: Vec<&str> = rest.split_whitespace().collect();
        let utime: u64 = f.get(11)?.parse().ok()?;
        let stime: u64 = f.get(12)?.parse().ok()?;
        Some(utime + stime)
    }

    /// True if every thread of the engine is sleeping right now (state S in /proc): a thread that
    /// wants the CPU but does not get it on a loaded machine is in state R, not S.
    pub fn all_threads_sleeping(&self) -> Option<bool> {
        let dir = std::fs::read_dir(format!("/proc/{}/task", self.child.id())).ok()?;
        let mut n = 0;
        for ent in dir.flatten() {
            let stat = std::fs::read_to_string(ent.path().join("stat")).ok()?;
            let state = stat.rsplit_once(')')?.1.split_whitespace().next()?.to_string();
            n += 1;
            if state != "S" {
                return Some(false);
            }
        }
        Some(n > 0)
    }

    /// True if the engine used (almost) no CPU during the next `ms` milliseconds AND all its
    /// threads were asleep whenever looked at (so a starved search thread is not taken for idle).
    pub fn is_idle_for(&mut self, ms: u64) -> Option<bool> {
        let a = self.cpu_ticks()?;
        let mut asleep = self.all_threads_sleeping()?;
        for _ in 0..5 {
            self.settle(ms / 5);
            asleep &= self.all_threads_sleeping()?;
        }
        let b = self.cpu_ticks()?;
        Some(asleep && b.saturating_sub(a) <= 1)
    }

    pub fn pid(&self) -> u32 {
        self.child.id()
    }

    pub fn now_us(&self) -> u64 {
        self.t0.elapsed().as_micros() as u64
    }

    /// Writes one line to the engine's stdin. Returns false if the pipe is closed.
    pub fn send(&mut self, line: &str) -> bool {
        let t = self.now_us();
        self.log.push(Event {
            t_us: t,
            src: Src::In,
            line: line.to_string(),
        });
        match self.stdin.as_mut() {
            Some(s) => s.write_all(line.as_bytes()).and_then(|()| s.write_all(b"\n")).and_then(|()| s.flush()).is_ok(),
            None => false,
        }
    }

    pub fn send_raw(&mut self, bytes: &[u8]) -> bool {
        let t = self.now_us();
        self.log.push(Event {
            t_us: t,
            src: Src::In,
            line: String::from_utf8_lossy(bytes).to_string(),
        });
        match self.stdin.as_mut() {
            Some(s) => s.write_all(bytes).and_then(|()| s.flush()).is_ok(),
            None => false,
        }
    }

    pub fn close_stdin(&mut self) {
        let t = self.now_us();
        self.log.push(Event {
            t_us: t,
            src: Src::In,
            line: "<EOF>".to_string(),
        });
        self.stdin = None;
    }

    fn pump(&mut self, wait: Duration) -> bool {
        match self.rx.recv_timeout(wait) {
            Ok(e) => {
                if e.src == Src::OutEof {
                    self.out_closed = true;
                }
                self.log.push(e);
                true
            }
            Err(RecvTimeoutError::Timeout) => false,
            Err(RecvTimeoutError::Disconnected) => {
                self.out_closed = true;
                self.disconnected = true;
                false
            }
        }
    }

    /// Consumes events in order until one satisfies `pred`; returns its index in the log.
    pub fn wait_for(&mut self, timeout_ms: u64, pred: impl Fn(&Event) -> bool) -> Option<usize> {
        let deadline = Instant::now() + Duration::from_millis(timeout_ms);
        loop {
            while self.cursor < self.log.len() {
                let i = self.cursor;
                self.cursor += 1;
                if self.log[i].src != Src::In && pred(&self.log[i]) {
                    return Some(i);
                }
            }
            let now = Instant::now();
            if now >= deadline {
                return None;
            }
            if self.out_closed && self.cursor >= self.log.len() {
                // nothing more can arrive on stdout; give stderr a moment, then give up
                if self.disconnected {
                    return None;
                }
                let grace = (deadline - now).min(Duration::from_millis(200));
                if !self.pump(grace) {
                    return None;
                }
                continue;
            }
            self.pump(deadline - now);
        }
    }

    /// Waits for an event at index >= `from` satisfying `pred`, independently of the shared cursor
    /// (so waiting for a stderr event never swallows a stdout line, and vice versa).
    pub fn wait_since(&mut self, from: usize, timeout_ms: u64, pred: impl Fn(&Event) -> bool) -> Option<usize> {
        let deadline = Instant::now() + Duration::from_millis(timeout_ms);
        let mut i = from;
        loop {
            while i < self.log.len() {
                if self.log[i].src != Src::In && pred(&self.log[i]) {
                    return Some(i);
                }
                i += 1;
            }
            let now = Instant::now();
            if now >= deadline || self.disconnected {
                return None;
            }
            self.pump(deadline - now);
        }
    }

    pub fn wait_out(&mut self, timeout_ms: u64, prefix: &str) -> Option<usize> {
        let p = prefix.to_string();
        self.wait_for(timeout_ms, move |e| e.src == Src::Out && e.line.starts_with(&p))
    }

    /// Like `wait_out`, but gives up early (after a short grace) once a panic message has been
    /// seen on stderr since `from`: the answer is not going to come.
    pub fn wait_out_unless_panic(&mut self, timeout_ms: u64, prefix: &str, from: usize) -> Option<usize> {
        let deadline = Instant::now() + Duration::from_millis(timeout_ms);
        loop {
            let left = deadline.saturating_duration_since(Instant::now()).as_millis() as u64;
            if let Some(i) = self.wait_out(left.min(150), prefix) {
                return Some(i);
            }
            if left == 0 {
                return None;
            }
            if self.log[from.min(self.log.len())..].iter().any(|e| e.src == Src::Err && e.line.contains("panicked at")) {
                return self.wait_out(300, prefix);
            }
            if self.out_closed {
                return None;
            }
        }
    }

    /// Collects everything that arrives within `ms` without consuming it for `wait_for`.
    pub fn settle(&mut self, ms: u64) {
        let deadline = Instant::now() + Duration::from_millis(ms);
        loop {
            let now = Instant::now();
            if now >= deadline || self.disconnected {
                break;
            }
            self.pump(deadline - now);
        }
    }

    /// Marks everything received so far as consumed.
    pub fn skip_to_end(&mut self) {
        while self.pump(Duration::from_millis(0)) {}
        self.cursor = self.log.len();
    }

    pub fn try_exit(&mut self) -> Option<ExitStatus> {
        self.child.try_wait().ok().flatten()
    }

    pub fn wait_exit(&mut self, timeout_ms: u64) -> Option<ExitStatus> {
        let deadline = Instant::now() + Duration::from_millis(timeout_ms);
        loop {
            if let Some(s) = self.try_exit() {
                return Some(s);
            }
            if Instant::now() >= deadline {
                return None;
            }
            if self.disconnected {
                std::thread::sleep(Duration::from_millis(2));
            } else {
                self.pump(Duration::from_millis(5));
            }
        }
    }

    pub fn is_alive(&mut self) -> bool {
        self.try_exit().is_none()
    }

    pub fn stderr_lines(&self, from: usize) -> Vec<String> {
        self.log[from.min(self.log.len())..]
            .iter()
            .filter(|e| e.src == Src::Err && !e.line.starts_with("@@EVT"))
            .map(|e| e.line.clone())
            .collect()
    }

    pub fn count_out(&self, from: usize, prefix: &str) -> usize {
        self.log[from.min(self.log.len())..]
            .iter()
            .filter(|e| e.src == Src::Out && e.line.starts_with(prefix))
            .count()
    }

    pub fn transcript(&self, from: usize, max: usize) -> String {
        let mut v: Vec<String> = self.log[from.min(self.log.len())..]
            .iter()
            .map(|e| {
                let tag = match e.src {
                    Src::In => ">",
                    Src::Out => "<",
                    Src::Err => "!",
                    Src::OutEof => "<EOF",
                    Src::ErrEof => "!EOF",
                };
                let mut l: String = e.line.chars().take(150).collect();
                if l.len() < e.line.len() {
                    l.push_str("...");
                }
                format!("{:>8}us {tag} {l}", e.t_us)
            })
            .collect();
        if v.len() > max {
            let cut = v.len() - max;
            v.drain(0..cut);
            v.insert(0, format!("... ({cut} earlier lines)"));
        }
        v.join("\n")
    }

    pub fn stdin_script(&self) -> Vec<String> {
        self.log.iter().filter(|e| e.src == Src::In).map(|e| e.line.clone()).collect()
    }

    pub fn kill(&mut self) {
        let _ = self.child.kill();
        let _ = self.child.wait();
    }
}

impl Drop for Engine {
    fn drop(&mut self) {
        self.stdin = None;
        let _ = self.child.kill();
        let _ = self.child.wait();
    }
}

/// Parses a `@@EVT <us> <thread> <label>#<hit>[.woke]` line.
pub fn parse_evt(line: &str) -> Option<(u64, String, String)> {
    let rest = line.strip_prefix("@@EVT ")?;
    let mut it = rest.splitn(2, ' ');
    let us: u64 = it.next()?.parse().ok()?;
    let rest = it.next()?;
    let idx = rest.rfind(' ')?;
    Some((us, rest[..idx].to_string(), rest[idx + 1..].to_string()))
}
