//! C06: attack tables against a step-by-step ray walk. The slider part is a complete enumeration.
use std::sync::atomic::{AtomicU64, Ordering};

use crate::board::bitboard::Bitboard;
use crate::board::piece::bishop::Bishop;
use crate::board::piece::queen::Queen;
use crate::board::piece::rook::Rook;
use crate::board::piece::{Color, Kind};
use crate::board::square::Square;
use crate::board::Board;

use super::out::{self, esc};
use super::rng::Rng;

const ROOK_D: [(i8, i8); 4] = [(1, 0), (-1, 0), (0, 1), (0, -1)];
const BISHOP_D: [(i8, i8); 4] = [(1, 1), (1, -1), (-1, 1), (-1, -1)];

fn step(sq: u8, dr: i8, df: i8) -> Option<u8> {
    let r = (sq >> 3) as i8 + dr;
    let f = (sq & 7) as i8 + df;
    if (0..8).contains(&r) && (0..8).contains(&f) {
        Some((r * 8 + f) as u8)
    } else {
        None
    }
}

/// Squares reached by sliding from `sq` along `dirs` up to and including the first blocker.
fn ray_walk(sq: u8, occ: u64, dirs: &[(i8, i8)]) -> u64 {
    let mut out = 0u64;
    for &(dr, df) in dirs {
        let mut cur = sq;
        while let Some(n) = step(cur, dr, df) {
            out |= 1u64 << n;
            if occ & (1u64 << n) != 0 {
                break;
            }
            cur = n;
        }
    }
    out
}

fn line_squares(sq: u8, dirs: &[(i8, i8)]) -> Vec<u8> {
    let mut v = Vec::new();
    for &(dr, df) in dirs {
        let mut cur = sq;
        while let Some(n) = step(cur, dr, df) {
            v.push(n);
            cur = n;
        }
    }
    v
}

fn leaper(sq: u8, deltas: &[(i8, i8)]) -> u64 {
    let mut out = 0;
    for &(dr, df) in deltas {
        if let Some(n) = step(sq, dr, df) {
            out |= 1u64 << n;
        }
    }
    out
}

fn sqname(s: u8) -> String {
    format!("{}{}", (b'a' + (s & 7)) as char, (b'1' + (s >> 3)) as char)
}

fn report(piece: &str, sq: u8, occ: u64, got: u64, want: u64) {
    out::violation(
        "C06",
        &format!("{piece}-{}", sqname(sq)),
        format!(
            "{piece} on {} with occupancy {occ:#018x}: table says {got:#018x}, sliding/stepping gives {want:#018x} (differs on {:#018x})",
            sqname(sq),
            got ^ want
        ),
        format!("{{\"kind\":\"tables\",\"piece\":{},\"square\":{},\"occ\":\"{occ:#x}\"}}", esc(piece), sq),
    );
}

pub fn check_one(piece: &str, sq: u8, occ: u64) -> bool {
    let s = Square::from(sq);
    let bb = Bitboard::new(occ);
    let (got, want) = match piece {
        "rook" => (*Rook::get_attacks_wrapper(s, bb), ray_walk(sq, occ, &ROOK_D)),
        "bishop" => (*Bishop::get_attacks_wrapper(s, bb), ray_walk(sq, occ, &BISHOP_D)),
        "queen" => (
            *Queen::get_attacks(s, bb),
            ray_walk(sq, occ, &ROOK_D) | ray_walk(sq, occ, &BISHOP_D),
        ),
        _ => return true,
    };
    if got != want {
        report(piece, sq, occ, got, want);
        return false;
    }
    true
}

pub fn run(tier: &str, seed: u64, threads: usize) {
    let evals = AtomicU64::new(0);
    let nontrivial = AtomicU64::new(0);
    let enumerated = AtomicU64::new(0);
    let random_n: u64 = if tier == "thorough" { 3_000_000_000 } else { 100_000_000 };

    // leapers and pawns: all 64 squares, both colours for pawns
    let board = Board::default();
    let knight_d: [(i8, i8); 8] = [(1, 2), (2, 1), (2, -1), (1, -2), (-1, -2), (-2, -1), (-2, 1), (-1, 2)];
    let king_d: [(i8, i8); 8] = [(1, 0), (1, 1), (0, 1), (-1, 1), (-1, 0), (-1, -1), (0, -1), (1, -1)];
    for sq in 0..64u8 {
        let s = Square::from(sq);
        for c in [Color::White, Color::Black] {
            for (name, kind, want) in [
                ("knight", Kind::Knight(c), leaper(sq, &knight_d)),
                ("king", Kind::King(c), leaper(sq, &king_d)),
                (
                    if c == Color::White { "white-pawn" } else { "black-pawn" },
                    Kind::Pawn(c),
                    leaper(sq, if c == Color::White { &[(1, -1), (1, 1)] } else { &[(-1, -1), (-1, 1)] }),
                ),
            ] {
                let got = *kind.get_attacks(s, &board);
                evals.fetch_add(1, Ordering::Relaxed);
                nontrivial.fetch_add(1, Ordering::Relaxed);
                if got != want {
                    report(name, sq, 0, got, want);
                }
            }
        }
    }
    out::count("C06.leaper_cases", 64 * 6);

    // sliders: complete enumeration of the subsets of each piece's line squares, 16 threads over squares
    let next = AtomicU64::new(0);
    std::thread::scope(|sc| {
        for t in 0..threads.max(1) {
            let evals = &evals;
            let nontrivial = &nontrivial;
            let enumerated = &enumerated;
            let next = &next;
            sc.spawn(move || {
                loop {
                    let sq = next.fetch_add(1, Ordering::Relaxed);
                    if sq >= 64 {
                        break;
                    }
                    let sq = sq as u8;
                    for (piece, dirs) in [("rook", &ROOK_D), ("bishop", &BISHOP_D)] {
                        let line = line_squares(sq, dirs);
                        let n = line.len();
                        let mut bad = 0;
                        for idx in 0u32..(1u32 << n) {
                            let mut occ = 0u64;
                            for (i, l) in line.iter().enumerate() {
                                if idx & (1 << i) != 0 {
                                    occ |= 1u64 << l;
                                }
                            }
                            let ok1 = check_one(piece, sq, occ);
                            let ok2 = check_one("queen", sq, occ);
                            if !(ok1 && ok2) {
                                bad += 1;
                                if bad > 50 {
                                    break;
                                }
                            }
                            if idx == 0x155 && sq % 9 == 0 && out::want_sample() {
                                out::sample(format!("C06 {piece} on {} occupancy {occ:#018x} -> {:#018x}", sqname(sq), ray_walk(sq, occ, dirs)));
                            }
                        }
                        let cnt = 1u64 << n;
                        evals.fetch_add(2 * cnt, Ordering::Relaxed);
                        enumerated.fetch_add(cnt, Ordering::Relaxed);
                        nontrivial.fetch_add(cnt - 1, Ordering::Relaxed);
                    }
                }
                // random full-board occupancies (blockers off the lines, on the edges, own square)
                let mut rng = Rng::derive(seed, 0xC06 + t as u64);
                let per = random_n / threads.max(1) as u64;
                for i in 0..per {
                    let mut occ = rng.next();
                    match i % 4 {
                        0 => occ &= rng.next(),
                        1 => occ &= rng.next() & rng.next(),
                        2 => occ |= rng.next(),
                        _ => {}
                    }
                    let sq = rng.below(64) as u8;
                    let piece = ["rook", "bishop", "queen"][(i % 3) as usize];
                    check_one(piece, sq, occ);
                }
                evals.fetch_add(per, Ordering::Relaxed);
            });
        }
    });
    out::count("C06.evaluations", evals.load(Ordering::Relaxed));
    out::count("C06.slider_subsets_enumerated", enumerated.load(Ordering::Relaxed));
    out::count("C06.random_occupancies", random_n / threads.max(1) as u64 * threads.max(1) as u64);
    out::count("C06.nontrivial", nontrivial.load(Ordering::Relaxed));
}
