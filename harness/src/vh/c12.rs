//! C12: with the cache live, short forced mates are found and avoidable ones avoided.
//! Oracle: exhaustive 3-ply analysis by the rules oracle + a budgeted AND/OR mate solver.
use super::eng;
use super::oracle::{self, Mv, Pos};
use super::out::{self, esc};
use super::rng::Rng;
use super::search::{clear_tt, engine_search};

static M2_VIOLATIONS: std::sync::atomic::AtomicU64 = std::sync::atomic::AtomicU64::new(0);

const SEQUENCES: &[&[u8]] = &[&[3], &[4], &[3, 4], &[1, 2, 3], &[5, 3], &[4, 3], &[2, 4], &[6, 3, 4]];

// ---------------------------------------------------------------------------
// classification (exact, 3 plies)
// ---------------------------------------------------------------------------

fn is_mate(p: &Pos) -> bool {
    p.in_check(p.stm) && p.legal_moves().is_empty()
}

fn mating_moves(p: &Pos) -> Vec<Mv> {
    p.legal_moves().into_iter().filter(|m| is_mate(&p.make(m))).collect()
}

fn has_mate_in_1(p: &Pos) -> bool {
    p.legal_moves().iter().any(|m| is_mate(&p.make(m)))
}

pub struct Class {
    pub m1: Vec<String>,
    /// key moves of a mate in two (after which every reply allows a mate in one)
    pub m2: Vec<String>,
    /// moves that do not allow the opponent a mate in one / moves that do
    pub avoid: Vec<String>,
    pub allow: Vec<String>,
}

pub fn classify(p: &Pos) -> Class {
    let mut c = Class {
        m1: vec![],
        m2: vec![],
        avoid: vec![],
        allow: vec![],
    };
    for m in p.legal_moves() {
        let q = p.make(&m);
        let replies = q.legal_moves();
        if replies.is_empty() {
            if q.in_check(q.stm) {
                c.m1.push(m.uci());
            }
            c.avoid.push(m.uci());
            continue;
        }
        if has_mate_in_1(&q) {
            c.allow.push(m.uci());
        } else {
            c.avoid.push(m.uci());
        }
        if replies.iter().all(|r| has_mate_in_1(&q.make(r))) {
            c.m2.push(m.uci());
        }
    }
    c
}

// ---------------------------------------------------------------------------
// mate solver (AND/OR, budgeted)
// ---------------------------------------------------------------------------

pub struct Solver {
    pub nodes: u64,
    pub budget: u64,
    pub checks_only: bool,
}

impl Solver {
    /// Attacker to move: can he force mate within `plies` (odd) plies? None = budget exceeded.
    pub fn attacker_wins(&mut self, p: &Pos, plies: u32) -> Option<bool> {
        self.nodes += 1;
        if self.nodes > self.budget {
            return None;
        }
        let moves = p.legal_moves();
        let mut next: Vec<Pos> = Vec::with_capacity(moves.len());
        for m in &moves {
            let q = p.make(m);
            let gives_check = q.in_check(q.stm);
            if gives_check && q.legal_moves().is_empty() {
                return Some(true);
            }
            if !self.checks_only || gives_check {
                next.push(q);
            }
        }
        if plies < 3 {
            return Some(false);
        }
        // checking moves first
        next.sort_by_key(|q| !q.in_check(q.stm));
        for q in &next {
            if self.defender_loses(q, plies - 1)? {
                return Some(true);
            }
        }
        Some(false)
    }

    /// Defender to move: is he mated whatever he plays, within `plies` plies?
    pub fn defender_loses(&mut self, q: &Pos, plies: u32) -> Option<bool> {
        self.nodes += 1;
        if self.nodes > self.budget {
            return None;
        }
        let moves = q.legal_moves();
        if moves.is_empty() {
            return Some(q.in_check(q.stm));
        }
        if plies < 2 {
            return Some(false);
        }
        for r in &moves {
            if !self.attacker_wins(&q.make(r), plies - 1)? {
                return Some(false);
            }
        }
        Some(true)
    }
}

fn dead_material(p: &Pos) -> bool {
    let mut minors = 0;
    for &pc in &p.sq {
        match oracle::kind(pc) {
            0 | oracle::K => {}
            oracle::N | oracle::B => minors += 1,
            _ => return false,
        }
    }
    minors <= 1
}

pub enum M2Verdict {
    KeyMove,
    LongerMateKept(u32),
    Violation(String),
    Inconclusive(String),
}

/// Rules 1-5 of DESIGN.md section 6 / C12 for a position with a mate in two.
pub fn judge_m2(p: &Pos, class: &Class, chosen: &str, horizon: u32) -> M2Verdict {
    if class.m2.iter().any(|m| m == chosen) || class.m1.iter().any(|m| m == chosen) {
        return M2Verdict::KeyMove;
    }
    let Some(m) = p.find_uci(chosen) else {
        return M2Verdict::Violation(format!("chosen move {chosen} is not legal"));
    };
    let q = p.make(&m);
    // rule 3: outright proofs that no forced mate is kept
    let replies = q.legal_moves();
    if replies.is_empty() && !q.in_check(q.stm) {
        return M2Verdict::Violation(format!("{chosen} stalemates the opponent"));
    }
    if dead_material(&q) {
        return M2Verdict::Violation(format!("{chosen} leaves material with which no mate is possible"));
    }
    if has_mate_in_1(&q) {
        return M2Verdict::Violation(format!("{chosen} allows the opponent a mate in one"));
    }
    for r in &replies {
        if r.captured != 0 && dead_material(&q.make(r)) {
            return M2Verdict::Violation(format!("after {chosen} the opponent captures with {} and no mate is possible any more", r.uci()));
        }
    }
    // rule 2: a (longer) forced mate is still there: iterative deepening, full width
    let mut inconclusive = false;
    let mut plies = 2;
    while plies < horizon {
        let mut s = Solver {
            nodes: 0,
            budget: 1_500_000,
            checks_only: false,
        };
        match s.defender_loses(&q, plies) {
            Some(true) => return M2Verdict::LongerMateKept(plies + 1),
            Some(false) => {}
            None => {
                inconclusive = true;
                break;
            }
        }
        plies += 2;
    }
    // checks-only net for long forcing lines, to twice the horizon
    {
        let mut s = Solver {
            nodes: 0,
            budget: 1_500_000,
            checks_only: true,
        };
        let mut pl = 2;
        while pl < 2 * horizon {
            match s.defender_loses(&q, pl) {
                Some(true) => return M2Verdict::LongerMateKept(pl + 1),
                Some(false) => {}
                None => break,
            }
            pl += 2;
        }
    }
    // rule 3 (continued): the opponent has a forced mate of his own
    {
        let mut s = Solver {
            nodes: 0,
            budget: 400_000,
            checks_only: false,
        };
        if s.attacker_wins(&q, 3) == Some(true) {
            return M2Verdict::Violation(format!("after {chosen} the opponent has a forced mate in two"));
        }
    }
    if inconclusive {
        return M2Verdict::Inconclusive(format!("solver budget ran out before {horizon} plies were exhausted after {chosen}"));
    }
    // rule 4: every line exhausted to the horizon the engine itself searched, no mate
    M2Verdict::Violation(format!(
        "after {chosen} there is no forced mate within {horizon} plies of the root (exhaustive), although a mate in two was available with {:?}",
        class.m2
    ))
}

// ---------------------------------------------------------------------------
// position generation
// ---------------------------------------------------------------------------

const HAND_FENS: &[&str] = &[
    // the only move that avoids mate in one is an under-promotion (found by the generator in an
    // earlier run; kept by construction since the regression sweep at the end of the build)
    "5Q2/2N5/8/8/8/8/2K1p3/k7 b - - 2 20",
    "2Q5/5N2/8/8/8/8/3p1K2/7k b - - 0 1",
    "8/1R6/2N2P2/2kP4/2P4P/3P4/8/6K1 w - - 1 94",
    "6k1/5ppp/8/8/8/8/5PPP/R5K1 w - - 0 1",
    "r1bqkb1r/pppp1ppp/2n2n2/4p2Q/2B1P3/8/PPPP1PPP/RNB1K1NR w KQkq - 4 4",
    "7k/5Q2/6K1/8/8/8/8/8 w - - 0 1",
    "6k1/8/6K1/8/8/8/8/R7 w - - 0 1",
    "k7/8/1K6/8/8/8/8/7R w - - 0 1",
    "5rk1/5ppp/8/8/8/8/1Q3PPP/1R4K1 b - - 0 1",
    "2kr4/ppp5/8/8/8/8/5PPP/3R2K1 w - - 0 1",
    "r5k1/5ppp/8/8/8/8/5PPP/2Q3K1 w - - 0 1",
    "6rk/6pp/8/6N1/8/8/8/6K1 w - - 0 1",
    "3q1rk1/5ppp/8/8/8/8/1B3PPP/3Q2K1 w - - 0 1",
    "kbK5/pp6/1P6/8/8/8/8/R7 w - - 0 1",
    "8/8/8/8/8/5K2/4Q3/7k w - - 0 1",
    "4k3/8/4K3/8/8/8/8/Q7 w - - 0 1",
    "8/r7/8/1q6/8/8/6k1/2K5 b - - 0 1",
    "4rkr1/4p1p1/8/8/8/8/8/4K2R w K - 0 1",
    "1rkr4/1p1p4/8/8/8/8/8/R3K3 w Q - 0 1",
];

/// Few-piece positions with a pawn one step from promotion (under-promotion tactics) and
/// bare minor-piece endings with a king near a corner (mates that exist against "insufficient" material).
fn random_special(rng: &mut Rng) -> Option<Pos> {
    let mut sq = [0u8; 64];
    let att = rng.below(2) as u8;
    let def = att ^ 1;
    let corner_zone = |rng: &mut Rng| -> usize {
        let c = *rng.pick(&[0usize, 7, 56, 63]);
        let (r, f) = (c / 8, c % 8);
        let dr = rng.below(2) as usize;
        let df = rng.below(2) as usize;
        let r2 = if r == 0 { r + dr } else { r - dr };
        let f2 = if f == 0 { f + df } else { f - df };
        r2 * 8 + f2
    };
    let mut put = |sq: &mut [u8; 64], s: usize, pc: u8| -> bool {
        if sq[s] != 0 {
            return false;
        }
        sq[s] = pc;
        true
    };
    let minors = [oracle::N, oracle::B];
    if rng.chance(1, 2) {
        // pawn on its 7th rank + king + 0-1 piece vs king + 0-1 piece
        let dk = if rng.chance(2, 3) { corner_zone(rng) } else { rng.below(64) as usize };
        put(&mut sq, dk, oracle::K | (def << 3));
        let file = rng.below(8) as usize;
        let ps = if att == 0 { 6 * 8 + file } else { 8 + file };
        if !put(&mut sq, ps, oracle::P | (att << 3)) {
            return None;
        }
        for _ in 0..20 {
            if put(&mut sq, rng.below(64) as usize, oracle::K | (att << 3)) {
                break;
            }
        }
        if rng.chance(2, 3) {
            let k = *rng.pick(&[oracle::N, oracle::B, oracle::R, oracle::Q]);
            let _ = put(&mut sq, rng.below(64) as usize, k | (att << 3));
        }
        if rng.chance(2, 3) {
            let k = *rng.pick(&[oracle::N, oracle::B, oracle::R, oracle::Q, oracle::P]);
            let s = rng.below(64) as usize;
            if !(k == oracle::P && (s < 8 || s >= 56)) {
                let _ = put(&mut sq, s, k | (def << 3));
            }
        }
    } else {
        // K + minor vs K + minor (or two minors vs one), defending king in or next to a corner
        let dk = corner_zone(rng);
        put(&mut sq, dk, oracle::K | (def << 3));
        // the attacking king close by
        for _ in 0..30 {
            let s = rng.below(64) as usize;
            let d = ((s / 8) as i32 - (dk / 8) as i32).abs().max(((s % 8) as i32 - (dk % 8) as i32).abs());
            if (2..=3).contains(&d) && put(&mut sq, s, oracle::K | (att << 3)) {
                break;
            }
        }
        let _ = put(&mut sq, rng.below(64) as usize, *rng.pick(&minors) | (att << 3));
        if rng.chance(1, 3) {
            let _ = put(&mut sq, rng.below(64) as usize, *rng.pick(&minors) | (att << 3));
        }
        // the defender's own piece next to its king (the self-block that makes the mate possible)
        for _ in 0..20 {
            let s = rng.below(64) as usize;
            let d = ((s / 8) as i32 - (dk / 8) as i32).abs().max(((s % 8) as i32 - (dk % 8) as i32).abs());
            if d == 1 && put(&mut sq, s, *rng.pick(&minors) | (def << 3)) {
                break;
            }
        }
    }
    let p = Pos {
        sq,
        stm: rng.below(2) as u8,
        castle: 0,
        ep: -1,
        half: rng.below(5) as u32,
        full: 1 + rng.below(60) as u32,
    };
    if p.is_sane() && !p.legal_moves().is_empty() {
        Some(p)
    } else {
        None
    }
}

/// The side to move has five to eight queens on a nearly empty board: 130 to 200 moves in one
/// position (fixed-size move buffers, 8-bit counters). The defender has its king near an edge
/// and up to three pieces, so that only some of the many checks are mate.
fn random_wide(rng: &mut Rng) -> Option<Pos> {
    let mut sq = [0u8; 64];
    let att = rng.below(2) as u8;
    let def = att ^ 1;
    let e = rng.below(8) as usize;
    let dk = match rng.below(4) {
        0 => e,
        1 => 56 + e,
        2 => e * 8,
        _ => e * 8 + 7,
    };
    sq[dk] = oracle::K | (def << 3);
    let mut place = |sq: &mut [u8; 64], rng: &mut Rng, pc: u8| {
        for _ in 0..30 {
            let s = rng.below(64) as usize;
            if sq[s] == 0 && !(oracle::kind(pc) == oracle::P && (s < 8 || s >= 56)) {
                sq[s] = pc;
                return;
            }
        }
    };
    place(&mut sq, rng, oracle::K | (att << 3));
    for _ in 0..(6 + rng.below(4)) {
        place(&mut sq, rng, oracle::Q | (att << 3));
    }
    for _ in 0..rng.below(4) {
        let k = *rng.pick(&[oracle::R, oracle::N, oracle::B, oracle::P, oracle::Q]);
        place(&mut sq, rng, k | (def << 3));
    }
    let p = Pos {
        sq,
        stm: att,
        castle: 0,
        ep: -1,
        half: rng.below(5) as u32,
        full: 1 + rng.below(60) as u32,
    };
    if p.is_sane() && p.legal_moves().len() > 128 {
        Some(p)
    } else {
        None
    }
}

fn random_tactical(rng: &mut Rng) -> Option<Pos> {
    if rng.chance(1, 4) {
        return random_special(rng);
    }
    let mut sq = [0u8; 64];
    let att = rng.below(2) as u8; // the side with the attack
    let def = att ^ 1;
    let mut place = |sq: &mut [u8; 64], rng: &mut Rng, pc: u8| -> bool {
        for _ in 0..20 {
            let s = rng.below(64) as usize;
            if sq[s] != 0 {
                continue;
            }
            if oracle::kind(pc) == oracle::P && (s < 8 || s >= 56) {
                continue;
            }
            sq[s] = pc;
            return true;
        }
        false
    };
    place(&mut sq, rng, oracle::K | (att << 3));
    // the defending king is more often near an edge
    let dk = loop {
        let s = if rng.chance(2, 3) {
            let e = rng.below(8) as usize;
            match rng.below(4) {
                0 => e,
                1 => 56 + e,
                2 => e * 8,
                _ => e * 8 + 7,
            }
        } else {
            rng.below(64) as usize
        };
        if sq[s] == 0 {
            break s;
        }
    };
    sq[dk] = oracle::K | (def << 3);
    let heavy_vs_heavy = rng.chance(1, 2);
    let attackers: &[&[u8]] = &[
        &[oracle::Q],
        &[oracle::R],
        &[oracle::Q, oracle::R],
        &[oracle::R, oracle::R],
        &[oracle::Q, oracle::N],
        &[oracle::Q, oracle::B],
        &[oracle::R, oracle::B],
        &[oracle::R, oracle::N, oracle::P],
        &[oracle::Q, oracle::P, oracle::P],
        &[oracle::R, oracle::R, oracle::P],
        &[oracle::Q, oracle::Q],
        &[oracle::B, oracle::B, oracle::N],
    ];
    for &k in *rng.pick(attackers) {
        place(&mut sq, rng, k | (att << 3));
    }
    if heavy_vs_heavy {
        for &k in *rng.pick(attackers) {
            place(&mut sq, rng, k | (def << 3));
        }
    } else {
        let n = rng.below(3);
        for _ in 0..n {
            let k = *rng.pick(&[oracle::P, oracle::P, oracle::N, oracle::B, oracle::R]);
            place(&mut sq, rng, k | (def << 3));
        }
    }
    let p = Pos {
        sq,
        stm: rng.below(2) as u8,
        castle: 0,
        ep: -1,
        half: rng.below(5) as u32,
        full: 1 + rng.below(60) as u32,
    };
    if p.is_sane() && !p.legal_moves().is_empty() {
        Some(p)
    } else {
        None
    }
}

// ---------------------------------------------------------------------------
// the run
// ---------------------------------------------------------------------------

pub fn run_c12(tier: &str, seed: u64, shard: usize, of: usize, only_job: Option<usize>, time_cap: u64) -> Result<(), String> {
    let thorough = tier == "thorough";
    let candidates: usize = if thorough { 1_200_000 } else { 75_000 };
    let started = std::time::Instant::now();
    let mut rng = Rng::derive(seed, 0xC12_0000 + shard as u64);
    let mut job = 0usize;
    let mut todo: Vec<Pos> = Vec::new();
    if shard == 0 {
        for f in HAND_FENS {
            if let Ok(p) = Pos::from_fen(f) {
                if p.is_sane() {
                    todo.push(p.clone());
                    let m = p.mirror();
                    if m.is_sane() {
                        todo.push(m);
                    }
                }
            }
        }
    }
    // wide positions: judged on "mate in one" only (their three-ply analysis is too dear), and
    // only with the depth sequences that stay at 4 plies or less
    let wide_wanted = if thorough { 40 } else { 4 };
    let mut wide_done = 0;
    let mut tries = 0;
    // kept by construction (found by this generator in an earlier run): every mating move belongs
    // to the queen that comes last in the engine's move list
    if shard == 0 && only_job.is_none() {
        for fen in ["7K/N1q5/q2N2k1/6q1/1q6/qB4q1/3q4/1q4q1 b - - 3 31", "7k/n1Q5/Q2n2K1/6Q1/1Q6/Qb4Q1/3Q4/1Q4Q1 w - - 3 31"] {
            let Ok(p) = Pos::from_fen(fen) else { continue };
            if !p.is_sane() {
                continue;
            }
            let m1: Vec<String> = mating_moves(&p).iter().map(Mv::uci).collect();
            if m1.is_empty() {
                continue;
            }
            out::count("C12.positions_with_more_than_128_moves", 1);
            let class = Class {
                m1,
                m2: vec![],
                avoid: vec![],
                allow: vec![],
            };
            c12_position(&p, &class, true, false, false, 899_000, shard, 4);
        }
    }
    // (own random stream: the family must not shift the positions the main generator produces)
    let mut wrng = Rng::derive(seed, 0xC12_A1DE + shard as u64);
    while wide_done < wide_wanted && tries < 6_000 && only_job.is_none() {
        tries += 1;
        let Some(p) = random_wide(&mut wrng) else { continue };
        let m1: Vec<String> = mating_moves(&p).iter().map(Mv::uci).collect();
        if m1.is_empty() {
            continue;
        }
        // three in four: every mating move comes late in the engine's own move list (a workload
        // bias, not an oracle: whatever is lost at the end of a long list is decisive there)
        if wide_done % 4 != 3 {
            let Ok(b) = eng::load(&p.fen()) else { continue };
            let list: Vec<String> = b.get_all_moves().iter().map(ToString::to_string).collect();
            let first = list.iter().position(|m| m1.contains(m)).unwrap_or(0);
            if first < 100 {
                continue;
            }
            out::count("C12.wide_positions_whose_mates_come_after_100_other_moves", 1);
        }
        if started.elapsed().as_secs() > time_cap {
            break;
        }
        wide_done += 1;
        out::count("C12.positions_with_more_than_128_moves", 1);
        out::set_max("C12.max_legal_moves_in_a_position", p.legal_moves().len() as u64);
        let class = Class {
            m1,
            m2: vec![],
            avoid: vec![],
            allow: vec![],
        };
        c12_position(&p, &class, true, false, false, 900_000 + wide_done, shard, 4);
    }
    let per_shard = candidates / of.max(1);
    let mut generated = 0;
    while generated < per_shard || !todo.is_empty() {
        let p = if let Some(p) = todo.pop() {
            p
        } else {
            generated += 1;
            match random_tactical(&mut rng) {
                Some(p) => p,
                None => continue,
            }
        };
        if started.elapsed().as_secs() > time_cap {
            out::inconclusive("C12 candidates not examined because the time cap was reached", 1);
            break;
        }
        let class = classify(&p);
        let is_m1 = !class.m1.is_empty();
        let is_m2 = !class.m2.is_empty() && !is_m1;
        let is_threat = !class.allow.is_empty() && !class.avoid.is_empty();
        if !(is_m1 || is_m2 || is_threat) {
            continue;
        }
        // keep the mix balanced: THREAT positions are the most frequent
        if is_threat && !is_m1 && !is_m2 && rng.chance(1, 2) {
            continue;
        }
        job += 1;
        if let Some(j) = only_job {
            if j != job {
                continue;
            }
        }
        c12_position(&p, &class, is_m1, is_m2, is_threat, job, shard, u8::MAX);
    }
    Ok(())
}

#[allow(clippy::too_many_arguments)]
fn c12_position(p: &Pos, class: &Class, is_m1: bool, is_m2: bool, is_threat: bool, job: usize, shard: usize, max_depth: u8) {
    let fen = p.fen();
    let Ok(b) = eng::load(&fen) else {
        out::inconclusive("C12 position rejected by the FEN reader", 1);
        return;
    };
    out::count("C12.positions", 1);
    if is_m1 {
        out::count("C12.positions_m1", 1);
    }
    if is_m2 {
        out::count("C12.positions_m2", 1);
    }
    if is_threat {
        out::count("C12.positions_threat", 1);
    }
    for (si, seq) in SEQUENCES.iter().enumerate() {
        if seq.iter().any(|d| *d > max_depth) {
            continue;
        }
        clear_tt();
        let mut max_sel: u32 = 0;
        for (k, &depth) in seq.iter().enumerate() {
            let r = engine_search(&b, None, Some(depth));
            max_sel = max_sel.max(u32::from(r.seldepth));
            let replay = format!(
                "{{\"kind\":\"c12\",\"fen\":{},\"sequence\":{:?},\"job\":{},\"shard\":{}}}",
                esc(&fen),
                seq,
                job,
                shard
            );
            let when = format!("'{fen}' sequence {seq:?} after search #{} (depth {depth})", k + 1);
            if let Some(pn) = &r.panicked {
                out::violation("C12", &format!("panic@{}", super::last_panic_location()), format!("search panicked ({pn}) on {when}"), replay);
                break;
            }
            if depth < 3 {
                continue;
            }
            let Some(chosen) = r.best.clone() else {
                out::inconclusive("C12 search returned no move", 1);
                continue;
            };
            out::count("C12.evaluations", 1);
            out::distinct("C12.nontrivial", &format!("{fen}|{seq:?}|{k}"));
            if out::want_sample() && job % 23 == 1 && si == 2 {
                out::sample(format!(
                    "C12 {when}: class m1={:?} m2={:?} allow-mate={} avoid={}; engine chose {chosen} (score {:?})",
                    class.m1,
                    class.m2,
                    class.allow.len(),
                    class.avoid.len(),
                    r.score
                ));
            }
            if is_m1 {
                out::count("C12.m1_checks", 1);
                if !class.m1.contains(&chosen) {
                    out::violation(
                        "C12",
                        "mate-in-one-missed",
                        format!("a mate in one exists ({:?}) but the engine chose {chosen} (score {:?}) on {when}", class.m1, r.score),
                        replay.clone(),
                    );
                }
                continue;
            }
            if is_threat {
                out::count("C12.threat_checks", 1);
                if class.allow.contains(&chosen) {
                    out::violation(
                        "C12",
                        "allows-mate-in-one",
                        format!(
                            "{chosen} allows the opponent a mate in one although {} legal move(s) avoid it (e.g. {:?}); score {:?}; on {when}",
                            class.avoid.len(),
                            &class.avoid[..class.avoid.len().min(4)],
                            r.score
                        ),
                        replay.clone(),
                    );
                    continue;
                }
            }
            if is_m2 {
                out::count("C12.m2_checks", 1);
                let horizon = max_sel.max(7);
                // the solver is the expensive part: once a run has plenty of M2 witnesses, further
                // non-key choices are only counted, not solved
                let non_key = !class.m2.contains(&chosen);
                if non_key && M2_VIOLATIONS.fetch_add(1, std::sync::atomic::Ordering::Relaxed) >= 16 {
                    out::inconclusive("C12 M2: non-key move not analysed (this process has already analysed 16 of them)", 1);
                    continue;
                }
                match judge_m2(p, class, &chosen, horizon) {
                    M2Verdict::KeyMove => out::count("C12.m2_key_move", 1),
                    M2Verdict::LongerMateKept(n) => {
                        out::count("C12.m2_longer_mate_kept", 1);
                        out::set_max("C12.m2_longest_kept_mate_plies", u64::from(n));
                    }
                    M2Verdict::Inconclusive(why) => out::inconclusive(&format!("C12 M2: {}", why.split(" after ").next().unwrap_or("")), 1),
                    M2Verdict::Violation(why) => {
                        let sig = if why.contains("no forced mate within") {
                            "mate-in-two-lost-rule4"
                        } else {
                            "mate-in-two-lost-proven"
                        };
                        out::violation(
                            "C12",
                            sig,
                            format!("{why}; score {:?}, seldepth {max_sel}; on {when}", r.score),
                            replay.clone(),
                        );
                    }
                }
            }
        }
    }
}
