//! C10: stop is never lost and go is never dropped, under forced and natural schedules.
//! The real binary runs with RCE_VERIF_TRACE=1 (hook events on stderr) and RCE_VERIF_SCHED
//! (a sleep at one labelled point); the driver reacts to trace events, so the order of events
//! is decided by the log, not by guessing delays.
use super::corpus;
use super::oracle::{Mv, Pos};
use super::out::{self, esc};
use super::rng::Rng;
use super::session::{parse_evt, Engine, Event, Src};
use super::uci::{random_game, Ctx, Game, START_FEN};

const HOLD_MS: u64 = 250;
const ALLOWANCE_MS: u64 = 1_500;
const EVT_TIMEOUT_MS: u64 = 4_000;

#[derive(Clone, Debug)]
enum Step {
    Send(String),
    /// wait for the hook event `label#hit` (on stderr)
    Evt(String),
    /// wait for a stdout line with this prefix
    Out(String, u64),
    Sleep(u64),
}

#[derive(Clone, Debug)]
struct Schedule {
    name: String,
    sched: String,
    steps: Vec<Step>,
    /// total time the schedule itself holds the search thread (added to every time bound)
    held_ms: u64,
}

fn go_kinds() -> Vec<(&'static str, bool)> {
    // (command, ends by itself)
    vec![
        ("go infinite", false),
        ("go depth 3", true),
        ("go nodes 400", true),
        ("go movetime 30", true),
        ("go wtime 600 btime 600", true),
        ("go wtime 150 btime 150 winc 1 binc 1", true),
        // budgets that will not run out during the schedule: the search must be ended by stop
        ("go movetime 3600000", false),
        ("go nodes 4000000000", false),
        ("go wtime 72000000 btime 72000000", false),
    ]
}

fn schedules(g1: &Game, g2: &Game) -> Vec<Schedule> {
    let mut v = Vec::new();
    let p1 = g1.command();
    let p2 = g2.command();
    let hold = |label: &str| format!("{label}=sleep:{HOLD_MS}");
    for (go, self_ending) in go_kinds() {
        let go = go.to_string();
        // ---- stop timing -------------------------------------------------------------
        for (tag, label) in [("a-enter", "search.enter@1"), ("b-started", "search.started@1"), ("c-iter1", "search.iter_done@1")] {
            let evt = label.replace('@', "#");
            v.push(Schedule {
                name: format!("stop-{tag}[{go}]"),
                sched: hold(label),
                held_ms: HOLD_MS,
                steps: vec![
                    Step::Send(p1.clone()),
                    Step::Send(go.clone()),
                    Step::Evt(evt),
                    Step::Send("stop".into()),
                    Step::Out("bestmove".into(), HOLD_MS + ALLOWANCE_MS + 2_000),
                    Step::Send("isready".into()),
                    Step::Out("readyok".into(), 3_000),
                    // the next go must be served as well
                    Step::Send(p2.clone()),
                    Step::Send("go depth 2".into()),
                    Step::Out("bestmove".into(), 8_000),
                ],
            });
        }
        v.push(Schedule {
            name: format!("stop-d-mid[{go}]"),
            sched: String::new(),
            held_ms: 0,
            steps: vec![
                Step::Send(p1.clone()),
                Step::Send(go.clone()),
                Step::Sleep(40),
                Step::Send("stop".into()),
                Step::Out("bestmove".into(), ALLOWANCE_MS + 2_000),
                Step::Send(p2.clone()),
                Step::Send("go depth 2".into()),
                Step::Out("bestmove".into(), 8_000),
            ],
        });
        v.push(Schedule {
            name: format!("stop-immediately[{go}]"),
            sched: String::new(),
            held_ms: 0,
            steps: vec![
                Step::Send(p1.clone()),
                Step::Send(go.clone()),
                Step::Send("stop".into()),
                Step::Out("bestmove".into(), ALLOWANCE_MS + 2_000),
                Step::Send(p2.clone()),
                Step::Send("go depth 2".into()),
                Step::Out("bestmove".into(), 8_000),
            ],
        });
        if self_ending {
            // (e) stop after the bestmove line, thread held before it exits; (f) after exit
            v.push(Schedule {
                name: format!("stop-e-after-bestmove-held[{go}]"),
                sched: hold("search.post_bestmove@1"),
                held_ms: HOLD_MS,
                steps: vec![
                    Step::Send(p1.clone()),
                    Step::Send(go.clone()),
                    Step::Out("bestmove".into(), 10_000),
                    Step::Send("stop".into()),
                    Step::Send("isready".into()),
                    Step::Out("readyok".into(), 3_000),
                    Step::Evt("search.exit#1".into()),
                    Step::Send(p2.clone()),
                    Step::Send("go depth 2".into()),
                    Step::Out("bestmove".into(), 8_000),
                ],
            });
            v.push(Schedule {
                name: format!("stop-f-after-exit[{go}]"),
                sched: String::new(),
                held_ms: 0,
                steps: vec![
                    Step::Send(p1.clone()),
                    Step::Send(go.clone()),
                    Step::Out("bestmove".into(), 10_000),
                    Step::Evt("search.exit#1".into()),
                    Step::Sleep(20),
                    Step::Send("stop".into()),
                    Step::Send("stop".into()),
                    Step::Send(p2.clone()),
                    Step::Send("go depth 2".into()),
                    Step::Out("bestmove".into(), 8_000),
                ],
            });
            // ---- go right after bestmove ------------------------------------------------
            for (tag, label) in [("held-post-bestmove", "search.post_bestmove@1"), ("held-exit", "search.exit@1"), ("natural", "")] {
                v.push(Schedule {
                    name: format!("go-after-bestmove-{tag}[{go}]"),
                    sched: if label.is_empty() { String::new() } else { hold(label) },
                    held_ms: if label.is_empty() { 0 } else { HOLD_MS },
                    steps: vec![
                        Step::Send(p1.clone()),
                        Step::Send(go.clone()),
                        Step::Out("bestmove".into(), 10_000),
                        Step::Send(p2.clone()),
                        Step::Send("go depth 2".into()),
                        Step::Out("bestmove".into(), 8_000 + HOLD_MS),
                        Step::Send("isready".into()),
                        Step::Out("readyok".into(), 3_000),
                    ],
                });
            }
        }
        // ---- position / isready between go and stop, and between stop and the next go --------
        v.push(Schedule {
            name: format!("position-and-isready-during-search[{go}]"),
            sched: hold("search.iter_done@1"),
            held_ms: HOLD_MS,
            steps: vec![
                Step::Send(p1.clone()),
                Step::Send(go.clone()),
                Step::Evt("search.started#1".into()),
                Step::Send("isready".into()),
                Step::Out("readyok".into(), 3_000),
                Step::Send(p2.clone()),
                Step::Send("verif_dump".into()),
                Step::Out("verif_dump".into(), 3_000),
                Step::Send("stop".into()),
                Step::Out("bestmove".into(), HOLD_MS + ALLOWANCE_MS + 10_000),
                Step::Send("isready".into()),
                Step::Out("readyok".into(), 3_000),
                Step::Send("go depth 2".into()),
                Step::Out("bestmove".into(), 8_000),
            ],
        });
        // ---- a new game announced while the search runs, and right behind the stop -----------
        v.push(Schedule {
            name: format!("ucinewgame-during-search[{go}]"),
            sched: String::new(),
            held_ms: 0,
            steps: vec![
                Step::Send(p1.clone()),
                Step::Send(go.clone()),
                Step::Evt("search.started#1".into()),
                Step::Send("ucinewgame".into()),
                Step::Sleep(20),
                Step::Send("stop".into()),
                Step::Out("bestmove".into(), ALLOWANCE_MS + 10_000),
                Step::Send("isready".into()),
                Step::Out("readyok".into(), 3_000),
                Step::Send(p2.clone()),
                Step::Send("go depth 2".into()),
                Step::Out("bestmove".into(), 8_000),
                Step::Sleep(200),
            ],
        });
        v.push(Schedule {
            // the stopped search is held just before it prints its answer; stop, ucinewgame, the
            // next position and the next go arrive back to back meanwhile
            name: format!("stop-ucinewgame-position-go-pipelined[{go}]"),
            sched: hold("search.pre_bestmove@1"),
            held_ms: HOLD_MS,
            steps: vec![
                Step::Send(p1.clone()),
                Step::Send(go.clone()),
                Step::Evt("search.started#1".into()),
                Step::Send("stop".into()),
                Step::Send("ucinewgame".into()),
                Step::Send(p2.clone()),
                Step::Send("go depth 2".into()),
                Step::Out("bestmove".into(), HOLD_MS + ALLOWANCE_MS + 10_000),
                Step::Out("bestmove".into(), 8_000),
                Step::Send("isready".into()),
                Step::Out("readyok".into(), 3_000),
                Step::Sleep(200),
            ],
        });
        // ---- stop storm ----------------------------------------------------------------
        v.push(Schedule {
            name: format!("stop-storm[{go}]"),
            sched: hold("search.started@1"),
            held_ms: HOLD_MS,
            steps: vec![
                Step::Send("stop".into()),
                Step::Send(p1.clone()),
                Step::Send("stop".into()),
                Step::Send(go.clone()),
                Step::Send("stop".into()),
                Step::Send("stop".into()),
                Step::Evt("search.started#1".into()),
                Step::Send("stop".into()),
                Step::Send("stop".into()),
                Step::Out("bestmove".into(), HOLD_MS + ALLOWANCE_MS + 10_000),
                Step::Send("stop".into()),
                Step::Send(p2.clone()),
                Step::Send("go depth 2".into()),
                Step::Out("bestmove".into(), 8_000),
            ],
        });
        // ---- an impatient GUI: further go commands while the search is running. They may be
        // refused, but the session must stay sound: one bestmove per accepted go, stop really
        // ends all searching, nothing unsolicited afterwards, the next go is served
        if !self_ending {
            v.push(Schedule {
                name: format!("repeated-go-while-searching[{go}]"),
                sched: String::new(),
                held_ms: 0,
                steps: vec![
                    Step::Send(p1.clone()),
                    Step::Send(go.clone()),
                    Step::Evt("search.started#1".into()),
                    Step::Send(go.clone()),
                    Step::Sleep(30),
                    Step::Send(go.clone()),
                    Step::Sleep(30),
                    Step::Send("stop".into()),
                    Step::Out("bestmove".into(), ALLOWANCE_MS + 3_000),
                    Step::Sleep(700),
                    Step::Send("isready".into()),
                    Step::Out("readyok".into(), 3_000),
                    Step::Send(p2.clone()),
                    Step::Send("go depth 2".into()),
                    Step::Out("bestmove".into(), 8_000),
                    Step::Sleep(300),
                ],
            });
        }
        // ---- the input thread is the one held ---------------------------------------------
        v.push(Schedule {
            name: format!("main-held-after-spawn[{go}]"),
            sched: hold("uci.go.spawned@1"),
            held_ms: HOLD_MS,
            steps: vec![
                Step::Send(p1.clone()),
                Step::Send(go.clone()),
                Step::Evt("uci.go.spawned#1".into()),
                Step::Send("stop".into()),
                Step::Out("bestmove".into(), HOLD_MS + ALLOWANCE_MS + 10_000),
                Step::Send(p2.clone()),
                Step::Send("go depth 2".into()),
                Step::Out("bestmove".into(), 8_000),
                Step::Send("isready".into()),
                Step::Out("readyok".into(), 3_000),
            ],
        });
        v.push(Schedule {
            name: format!("main-held-before-stop[{go}]"),
            // commands: 1 = position, 2 = go, 3 = stop
            sched: hold("uci.cmd.pre@3"),
            held_ms: HOLD_MS,
            steps: vec![
                Step::Send(p1.clone()),
                Step::Send(go.clone()),
                Step::Evt("search.started#1".into()),
                Step::Send("stop".into()),
                Step::Out("bestmove".into(), HOLD_MS + ALLOWANCE_MS + 10_000),
                Step::Send(p2.clone()),
                Step::Send("go depth 2".into()),
                Step::Out("bestmove".into(), 8_000),
            ],
        });
        // the second search is the one held: stop for go #2 arrives while thread #2 is at its entry
        v.push(Schedule {
            name: format!("second-search-stop-at-enter[{go}]"),
            sched: hold("search.enter@2"),
            held_ms: HOLD_MS,
            steps: vec![
                Step::Send(p1.clone()),
                Step::Send("go depth 2".into()),
                Step::Out("bestmove".into(), 8_000),
                Step::Evt("search.exit#1".into()),
                Step::Send(p2.clone()),
                Step::Send(go.clone()),
                Step::Evt("search.enter#2".into()),
                Step::Send("stop".into()),
                Step::Out("bestmove".into(), HOLD_MS + ALLOWANCE_MS + 10_000),
            ],
        });
    }
    v
}

struct GoRecord {
    t_us: u64,
    pos: Pos,
    cmd: String,
    stop_t_us: Option<u64>,
    bestmoves: Vec<(u64, String)>,
}

/// The history oracle: checks the merged log of one session.
/// Returns the largest overrun (ms) of a stop-to-bestmove latency over `held + allowance`, if any.
/// The caller decides (after re-running the schedule alone) whether that is a violation.
fn check_history(prop_name: &str, sched: &Schedule, e: &Engine, job: usize, missed_window: bool) -> Option<(usize, u64)> {
    let mut slow: Option<(usize, u64)> = None;
    let replay = format!(
        "{{\"kind\":\"c10\",\"job\":{},\"schedule\":{},\"sched_env\":{},\"script\":{}}}",
        job,
        esc(&sched.name),
        esc(&sched.sched),
        out::str_list(&e.stdin_script())
    );
    // reconstruct: positions, go commands, their answers
    let mut pos = Pos::startpos();
    let mut gos: Vec<GoRecord> = Vec::new();
    let mut isready = 0;
    let mut readyok = 0;
    for ev in &e.log {
        match ev.src {
            Src::In if ev.line == "stop\nisready\n" => {
                if let Some(g) = gos.last_mut() {
                    if g.bestmoves.is_empty() && g.stop_t_us.is_none() {
                        g.stop_t_us = Some(ev.t_us);
                    }
                }
                isready += 1;
            }
            Src::In => {
                let t: Vec<&str> = ev.line.split_whitespace().collect();
                match t.first().copied() {
                    Some("position") => {
                        if let Some(p) = position_of(&ev.line) {
                            pos = p;
                        }
                    }
                    Some("go") => gos.push(GoRecord {
                        t_us: ev.t_us,
                        pos: pos.clone(),
                        cmd: ev.line.clone(),
                        stop_t_us: None,
                        bestmoves: vec![],
                    }),
                    Some("stop") => {
                        if let Some(g) = gos.last_mut() {
                            if g.bestmoves.is_empty() && g.stop_t_us.is_none() {
                                g.stop_t_us = Some(ev.t_us);
                            }
                        }
                    }
                    Some("isready") => isready += 1,
                    // a new game: the session position is the start position again
                    Some("ucinewgame") => pos = Pos::startpos(),
                    _ => {}
                }
            }
            Src::Out => {
                if ev.line.starts_with("bestmove") {
                    let mv = ev.line.split_whitespace().nth(1).unwrap_or("").to_string();
                    // searches are answered in the order in which they were asked for (a GUI may
                    // have sent the next go before this answer arrived): the line belongs to the
                    // earliest go still waiting, or, if none is waiting, to the latest one (surplus)
                    // (a schedule that sends go while a search runs gets refusals: the latest go there)
                    let fifo = !sched.name.starts_with("repeated-go-while-searching");
                    let at = gos.iter().position(|g| fifo && g.bestmoves.is_empty()).unwrap_or(gos.len().saturating_sub(1));
                    match gos.get_mut(at) {
                        Some(g) => g.bestmoves.push((ev.t_us, mv)),
                        None => out::violation(prop_name, "bestmove-without-go", format!("[{}] bestmove line without any go", sched.name), replay.clone()),
                    }
                } else if ev.line.starts_with("readyok") {
                    readyok += 1;
                }
            }
            _ => {}
        }
    }
    let stderr: Vec<&Event> = e.log.iter().filter(|x| x.src == Src::Err && !x.line.starts_with("@@EVT")).collect();
    let refused = stderr.iter().any(|x| x.line.contains("already running"));
    let panicked = stderr.iter().find(|x| x.line.contains("panicked at")).map(|x| x.line.clone());
    let kind = sched.name.split('[').next().unwrap_or("").to_string();
    if kind == "repeated-go-while-searching" {
        // the GUI is not conformant here, so go commands may be refused; what must hold:
        // bestmove lines == go commands - refusals, and silence once everything has been answered
        let n_go = gos.len();
        let n_refused = stderr.iter().filter(|x| x.line.contains("already running")).count();
        let n_best: usize = gos.iter().map(|g| g.bestmoves.len()).sum();
        if n_best + n_refused != n_go {
            out::violation(
                prop_name,
                "repeated-go-accounting",
                format!("[{}] {n_go} go commands, {n_refused} refused, but {n_best} bestmove lines\n{}", sched.name, e.transcript(0, 30)),
                replay.clone(),
            );
        }
        // after the last bestmove nothing may still be searching: no info line more than 250 ms later
        let last_bm = e.log.iter().filter(|x| x.src == Src::Out && x.line.starts_with("bestmove")).map(|x| x.t_us).max().unwrap_or(0);
        let late_info = e.log.iter().filter(|x| x.src == Src::Out && x.line.starts_with("info") && x.t_us > last_bm + 250_000).count();
        // ... and between the stop's answer and the next go as well
        let first_bm = e.log.iter().filter(|x| x.src == Src::Out && x.line.starts_with("bestmove")).map(|x| x.t_us).min().unwrap_or(0);
        let next_go = e.log.iter().filter(|x| x.src == Src::In && x.line.starts_with("go") && x.t_us > first_bm).map(|x| x.t_us).min().unwrap_or(u64::MAX);
        let stray_info = e.log.iter().filter(|x| x.src == Src::Out && x.line.starts_with("info") && x.t_us > first_bm + 250_000 && x.t_us < next_go).count();
        if late_info + stray_info > 0 {
            out::violation(
                prop_name,
                "search-still-running-after-stop",
                format!("[{}] {} info line(s) arrive long after the stop was answered: a search is still running that no stop can reach\n{}", sched.name, late_info + stray_info, e.transcript(0, 30)),
                replay.clone(),
            );
        }
        // legality of what was answered
        for g in &gos {
            let legal: Vec<String> = g.pos.legal_moves().iter().map(Mv::uci).collect();
            for (_, mv) in &g.bestmoves {
                if !legal.contains(mv) {
                    out::violation(prop_name, "repeated-go-illegal-bestmove", format!("[{}] bestmove {mv} not legal in '{}'", sched.name, g.pos.fen()), replay.clone());
                }
            }
        }
        out::count("C10.evaluations", 1);
        out::count(&format!("C10.kind.{kind}"), 1);
        return None;
    }
    for (k, g) in gos.iter().enumerate() {
        let mut legal: Vec<String> = g.pos.legal_moves().iter().map(Mv::uci).collect();
        if legal.is_empty() {
            // a finished game (mate or stalemate on the board): the null move is the answer
            legal.push("0000".to_string());
        }
        if g.bestmoves.is_empty() {
            let why = if refused {
                "the go was refused: 'Search is already running'"
            } else if g.stop_t_us.is_some() {
                "the stop was lost (search still running) or the answer never came"
            } else {
                "no answer"
            };
            out::violation(
                prop_name,
                &format!("{}-go{}-unanswered[{}]", kind, k + 1, if refused { "refused" } else if g.stop_t_us.is_some() { "stop-lost" } else { "silent" }),
                format!("[{}] go #{} '{}' got no bestmove: {why}{}\n{}", sched.name, k + 1, g.cmd, panicked.as_ref().map(|p| format!("; {p}")).unwrap_or_default(), e.transcript(0, 30)),
                replay.clone(),
            );
            continue;
        }
        if g.bestmoves.len() > 1 {
            out::violation(
                prop_name,
                &format!("{kind}-go{}-answered-twice", k + 1),
                format!("[{}] go #{} '{}' got {} bestmove lines\n{}", sched.name, k + 1, g.cmd, g.bestmoves.len(), e.transcript(0, 30)),
                replay.clone(),
            );
        }
        let (t_bm, mv) = &g.bestmoves[0];
        if !legal.contains(mv) {
            out::violation(
                prop_name,
                &format!("{kind}-go{}-illegal-bestmove", k + 1),
                format!("[{}] go #{} '{}': bestmove {mv} is not legal in the position current when the go was sent '{}'\n{}", sched.name, k + 1, g.cmd, g.pos.fen(), e.transcript(0, 30)),
                replay.clone(),
            );
        }
        if let Some(ts) = g.stop_t_us {
            let lat_ms = t_bm.saturating_sub(ts) / 1000;
            out::set_max("C10.max_stop_to_bestmove_ms", lat_ms);
            if lat_ms > sched.held_ms + ALLOWANCE_MS && slow.map_or(true, |(_, l)| lat_ms > l) {
                slow = Some((k + 1, lat_ms));
            }
        }
    }
    for ev in e.log.iter().filter(|x| x.src == Src::Out) {
        let l = ev.line.as_str();
        let ok = l == "readyok" || l.starts_with("info ") || l.starts_with("verif_dump ") || l.starts_with("id ") || l.starts_with("option ") || l == "uciok"
            || (l.starts_with("bestmove ") && l.split_whitespace().count() == 2);
        if !ok {
            out::violation(
                prop_name,
                "torn-output-line",
                format!("[{}] stdout carried the line '{}', which is not a whole answer of either thread", sched.name, l.chars().take(160).collect::<String>()),
                replay.clone(),
            );
            break;
        }
    }
    if refused && !gos.iter().any(|g| g.bestmoves.is_empty()) {
        out::violation(
            prop_name,
            &format!("{kind}-command-refused"),
            format!("[{}] a conformant command was refused ('already running')\n{}", sched.name, e.transcript(0, 30)),
            replay.clone(),
        );
    }
    if readyok != isready {
        out::violation(
            prop_name,
            &format!("{kind}-isready-unanswered"),
            format!("[{}] {isready} isready sent, {readyok} readyok received\n{}", sched.name, e.transcript(0, 30)),
            replay.clone(),
        );
    }
    // verif_dump after a position command during a search must show the new position
    let mut last_pos_cmd: Option<Pos> = None;
    let mut want_dump: Option<Pos> = None;
    for ev in &e.log {
        if ev.src == Src::In && ev.line.starts_with("position") {
            last_pos_cmd = position_of(&ev.line);
        } else if ev.src == Src::In && ev.line == "verif_dump" {
            want_dump = last_pos_cmd.clone();
        } else if ev.src == Src::Out && ev.line.starts_with("verif_dump ") {
            if let Some(w) = want_dump.take() {
                let squares: String = w.sq.iter().map(|&c| super::oracle::piece_char(c)).collect();
                if !ev.line.contains(&format!("squares {squares} ")) {
                    out::violation(
                        prop_name,
                        &format!("{kind}-position-ignored"),
                        format!("[{}] a position command sent during the search was not applied\n{}", sched.name, e.transcript(0, 30)),
                        replay.clone(),
                    );
                }
            }
        }
    }
    // the observed interleaving, canonical form (no timestamps): distinct ones are counted
    // ordered by the engine's own clock (the stamp inside each hook event), so the order is the
    // true order of command processing vs. search-thread events, not the order of pipe delivery
    let mut evts: Vec<(u64, String)> = e
        .log
        .iter()
        .filter(|ev| ev.src == Src::Err)
        .filter_map(|ev| parse_evt(&ev.line))
        .map(|(us, _, l)| (us, l))
        .filter(|(_, l)| !l.contains("iter_done") || l.ends_with("#1") || l.ends_with("#1.woke"))
        .collect();
    evts.sort_by_key(|x| x.0);
    let canon: Vec<String> = evts.into_iter().map(|(_, l)| l).collect();
    out::distinct("C10.nontrivial", &canon.join(" "));
    out::count("C10.evaluations", 1);
    out::count(&format!("C10.kind.{kind}"), 1);
    if missed_window {
        out::inconclusive("C10 schedule whose opening event never appeared (window not hit)", 1);
    } else if !sched.sched.is_empty() {
        out::count("C10.forced_windows_hit", 1);
    }
    if out::want_sample() && job % 17 == 3 {
        out::sample(format!("C10 [{}] sched '{}': {}", sched.name, sched.sched, canon.join(" ")));
    }
    slow
}

/// Only the timing clause, for re-runs: the largest stop-to-bestmove latency of the session (ms).
fn worst_stop_latency(e: &Engine) -> Option<u64> {
    let mut worst: Option<u64> = None;
    let mut stop_t: Option<u64> = None;
    let mut pending_go = false;
    for ev in &e.log {
        match ev.src {
            Src::In if ev.line.starts_with("go") => {
                pending_go = true;
                stop_t = None;
            }
            Src::In if ev.line == "stop" && pending_go && stop_t.is_none() => stop_t = Some(ev.t_us),
            Src::Out if ev.line.starts_with("bestmove") => {
                if let Some(ts) = stop_t {
                    let l = ev.t_us.saturating_sub(ts) / 1000;
                    worst = Some(worst.map_or(l, |w| w.max(l)));
                }
                pending_go = false;
                stop_t = None;
            }
            _ => {}
        }
    }
    worst
}

fn position_of(line: &str) -> Option<Pos> {
    let t: Vec<&str> = line.split_whitespace().collect();
    let (mut p, rest) = if t.get(1) == Some(&"startpos") {
        (Pos::startpos(), &t[2..])
    } else if t.get(1) == Some(&"fen") && t.len() >= 8 {
        (Pos::from_fen(&t[2..8].join(" ")).ok()?, &t[8..])
    } else {
        return None;
    };
    if rest.first() == Some(&"moves") {
        for m in &rest[1..] {
            let mv = p.find_uci(m)?;
            p = p.make(&mv);
        }
    }
    Some(p)
}

fn run_schedule(ctx: &Ctx, sched: &Schedule, job: usize) {
    run_schedule_inner(ctx, sched, job, true);
}

fn run_schedule_inner(ctx: &Ctx, sched: &Schedule, job: usize, first: bool) -> Option<u64> {
    let mut env = vec![("RCE_VERIF_TRACE".to_string(), "1".to_string())];
    if !sched.sched.is_empty() {
        env.push(("RCE_VERIF_SCHED".to_string(), sched.sched.clone()));
    }
    let Ok(mut e) = Engine::spawn(&ctx.engine, &env) else {
        out::harness_error("cannot start the engine".into());
        return None;
    };
    let mut missed = false;
    let mut out_from = 0usize;
    let mut evt_from = 0usize;
    for st in &sched.steps {
        match st {
            Step::Send(l) => {
                e.send(l);
            }
            Step::Sleep(ms) => e.settle(*ms),
            Step::Evt(label) => {
                let want = format!(" {label}");
                match e.wait_since(evt_from, EVT_TIMEOUT_MS, |ev| ev.src == Src::Err && ev.line.starts_with("@@EVT") && ev.line.ends_with(&want)) {
                    Some(i) => evt_from = i + 1,
                    None => {
                        missed = true;
                    }
                }
            }
            Step::Out(prefix, timeout) => {
                let p = prefix.clone();
                match e.wait_since(out_from, *timeout, move |ev| ev.src == Src::Out && ev.line.starts_with(&p)) {
                    Some(i) => out_from = i + 1,
                    None => break, // the history oracle will say what is missing
                }
            }
        }
    }
    e.settle(150);
    // a go that has no answer yet is not yet an unanswered go: on a loaded machine the waits above
    // prove nothing. As long as the engine is alive, give the missing answers up to 8 more seconds
    // (a late answer is then judged as a slow stop, i.e. re-run three times)
    let owed = |e: &Engine| {
        let gos = e.log.iter().filter(|x| x.src == Src::In && x.line.starts_with("go")).count();
        let refused = e.log.iter().filter(|x| x.src == Src::Err && x.line.contains("already running")).count();
        let answers = e.log.iter().filter(|x| x.src == Src::Out && x.line.starts_with("bestmove")).count();
        gos.saturating_sub(refused).saturating_sub(answers)
    };
    let grace = std::time::Instant::now();
    while owed(&e) > 0 && e.is_alive() && grace.elapsed().as_millis() < 8_000 {
        e.settle(100);
    }
    let slow = if first { check_history("C10", sched, &e, job, missed) } else { None };
    let lat = worst_stop_latency(&e);
    e.send("quit");
    let _ = e.wait_exit(500);
    if let Some((k, lat_ms)) = slow {
        // a wall-clock overrun on a loaded machine proves nothing: the same schedule is run three
        // more times; only an overrun that shows every time is reported
        let mut again = Vec::new();
        for _ in 0..3 {
            let l = run_schedule_inner(ctx, sched, job, false).unwrap_or(0);
            again.push(l);
        }
        if again.iter().all(|l| *l > sched.held_ms + ALLOWANCE_MS) {
            out::violation(
                "C10",
                &format!("{}-go{k}-stop-slow", sched.name.split('[').next().unwrap_or("")),
                format!(
                    "[{}] go #{k}: bestmove came {lat_ms} ms after stop (schedule holds {} ms, allowance {ALLOWANCE_MS} ms); reproduced 3/3: {again:?} ms",
                    sched.name, sched.held_ms
                ),
                format!("{{\"kind\":\"c10\",\"job\":{job},\"schedule\":{}}}", esc(&sched.name)),
            );
        } else {
            out::inconclusive("C10 slow stop not reproduced when the schedule was re-run (machine load)", 1);
        }
    }
    lat
}

/// Unforced stress: go / stop / go cycles at natural speed; the GUI answers bestmove at once.
fn stress_session(ctx: &Ctx, idx: usize, seeds: &[String], cycles: u64) {
    let mut rng = Rng::derive(ctx.seed, 0xC10_5000 + idx as u64);
    let mut env = vec![("RCE_VERIF_TRACE".to_string(), "1".to_string())];
    // every third stress session has both engine threads time-sliced on a single CPU
    let pinned = idx % 3 == 2;
    if pinned {
        env.push(("VH_PIN_CPU".to_string(), (idx % 16).to_string()));
        out::count("C10.stress_sessions_pinned_to_one_cpu", 1);
    }
    let Ok(mut e) = Engine::spawn(&ctx.engine, &env) else { return };
    let mut out_from = 0usize;
    let sched = Schedule {
        name: if pinned { "stress[one-cpu]".into() } else { "stress[natural]".into() },
        sched: String::new(),
        steps: vec![],
        held_ms: 0,
    };
    let mut prev: Option<Game> = None;
    let mut owed = 0u32;
    for _ in 0..cycles {
        // half of the cycles continue the game of the previous cycle by a move or two (so the new
        // root was already visited by the previous search and sits in the cache), the others start afresh
        let n_more = 1 + rng.below(2);
        let g = match &prev {
            Some(pg) if rng.chance(1, 2) => {
                let x = super::uci::extend_game(&mut rng, pg, n_more);
                if x.last().legal_moves().is_empty() { random_game(&mut rng, seeds, 12, true) } else { x }
            }
            _ => random_game(&mut rng, seeds, 12, true),
        };
        // one cycle in twelve is a go on a finished game (mate or stalemate on the board): it is
        // answered at once with the null move and must leave nothing behind for the next cycle
        let g = if rng.chance(1, 12) {
            let fen = *rng.pick(&["7k/5K2/6Q1/8/8/8/8/8 b - - 0 1", "R5k1/5ppp/8/8/8/8/5PPP/6K1 b - - 0 1", "7k/5Q2/6K1/8/8/8/8/8 b - - 0 1", "K1k5/P7/8/8/8/8/8/8 w - - 0 1"]);
            out::count("C10.stress_cycles_on_a_finished_game", 1);
            Game {
                start_fen: fen.to_string(),
                is_startpos: false,
                moves: vec![],
                positions: vec![Pos::from_fen(fen).unwrap()],
            }
        } else {
            g
        };
        prev = if g.last().legal_moves().is_empty() { None } else { Some(g.clone()) };
        e.send(&g.command());
        let go = *rng.pick(&[
            "go infinite",
            "go infinite",
            "go depth 2",
            "go nodes 300",
            "go movetime 5",
            "go depth 1",
            "go movetime 3600000",
            "go movetime 3600000",
            "go nodes 4000000000",
            "go wtime 72000000 btime 72000000 winc 1000 binc 1000",
        ]);
        let needs_stop = go == "go infinite" || go.contains("3600000") || go.contains("4000000000") || go.contains("72000000");
        e.send(go);
        match rng.below(4) {
            0 => {}
            1 => {
                let spins = rng.below(20_000);
                let mut x = 0u64;
                for i in 0..spins {
                    x = x.wrapping_add(i).rotate_left(5);
                    std::hint::black_box(x);
                }
            }
            2 => e.settle(rng.below(4)),
            _ => e.settle(rng.below(30)),
        }
        if rng.chance(1, 8) {
            // a new game is announced while the search runs (its answer is still owed)
            e.send("ucinewgame");
            out::count("C10.stress_ucinewgame_during_search", 1);
        }
        let mut want_ready = false;
        let stopped = needs_stop || rng.chance(1, 2);
        if stopped {
            if rng.chance(1, 3) {
                // both commands in a single write: the answers of the two threads collide on stdout
                e.send_raw(b"stop\nisready\n");
                want_ready = true;
                out::count("C10.stop_and_isready_in_one_write", 1);
            } else {
                e.send("stop");
            }
        }
        let ready_from = out_from;
        if stopped && !want_ready && rng.chance(1, 4) {
            // the GUI does not wait for the answer: the next cycle's commands follow at once
            owed += 1;
            out::count("C10.stress_cycles_pipelined", 1);
            continue;
        }
        let mut lost = false;
        for _ in 0..=owed {
            match e.wait_since(out_from, ALLOWANCE_MS + 6_000, |ev| ev.src == Src::Out && ev.line.starts_with("bestmove")) {
                Some(i) => out_from = i + 1,
                None => lost = true,
            }
        }
        owed = 0;
        if lost {
            break;
        }
        if want_ready && e.wait_since(ready_from, 3_000, |ev| ev.src == Src::Out && ev.line == "readyok").is_none() {
            break;
        }
    }
    for _ in 0..owed {
        let _ = e.wait_since(out_from, ALLOWANCE_MS + 6_000, |ev| ev.src == Src::Out && ev.line.starts_with("bestmove")).map(|i| out_from = i + 1);
    }
    e.settle(100);
    if let Some((k, lat)) = check_history("C10", &sched, &e, 100_000 + idx, false) {
        // natural-speed stress cannot be re-run with the same timing; a single slow stop is not a verdict
        out::inconclusive("C10 stress: one stop took longer than the allowance (not reproducible by construction)", 1);
        out::note(format!("stress session {idx}: go #{k} bestmove {lat} ms after stop"));
    }
}

/// Many very short rounds of go + (stop and isready in ONE write): the answers of the two threads
/// (bestmove from the search thread, readyok from the input thread) collide on stdout thousands of
/// times. Every line must stay whole and every command must be answered.
fn burst_session(ctx: &Ctx, idx: usize, rounds: usize) {
    let mut rng = Rng::derive(ctx.seed, 0xC10_B000 + idx as u64);
    let env = vec![("RCE_VERIF_TRACE".to_string(), "0".to_string())];
    let Ok(mut e) = Engine::spawn(&ctx.engine, &env) else { return };
    e.send(*rng.pick(&["position startpos", "position fen 7k/8/8/8/8/8/8/K7 w - - 0 1", "position startpos moves e2e4 e7e5"]));
    let mut from = 0usize;
    let mut done = 0;
    for _ in 0..rounds {
        let go = *rng.pick(&["go infinite", "go infinite", "go depth 100", "go movetime 3600000"]);
        e.send(go);
        // the search must be under way when the stop arrives, so that its bestmove is printed at
        // the very moment the input thread prints readyok: wait for its first info line
        let _ = e.wait_since(from, 50, |ev| ev.src == Src::Out && ev.line.starts_with("info"));
        if rng.chance(1, 2) {
            let spins = rng.below(3_000);
            let mut x = 0u64;
            for i in 0..spins {
                x = x.wrapping_add(i).rotate_left(7);
                std::hint::black_box(x);
            }
        }
        e.send_raw(b"stop\nisready\n");
        let a = e.wait_since(from, ALLOWANCE_MS + 4_000, |ev| ev.src == Src::Out && ev.line.starts_with("bestmove"));
        let b = e.wait_since(from, 4_000, |ev| ev.src == Src::Out && ev.line == "readyok");
        match (a, b) {
            (Some(x), Some(y)) => from = x.max(y) + 1,
            _ => break,
        }
        done += 1;
    }
    out::count("C10.burst_rounds", done as u64);
    e.settle(50);
    let sched = Schedule {
        name: "burst[stop+isready in one write]".into(),
        sched: String::new(),
        steps: vec![],
        held_ms: 0,
    };
    let _ = check_history("C10", &sched, &e, 200_000 + idx, false);
}

pub fn run_c10(ctx: &Ctx) -> Result<(), String> {
    let seeds: Vec<String> = corpus::all_seeds()?;
    let thorough = ctx.tier == "thorough";
    let n_positions = if thorough { 8 } else { 3 };
    let mut all: Vec<Schedule> = Vec::new();
    let mut rng = Rng::derive(ctx.seed, 0xC10);
    for k in 0..n_positions {
        let g1 = if k == 0 {
            Game {
                start_fen: START_FEN.to_string(),
                is_startpos: true,
                moves: vec![],
                positions: vec![Pos::startpos()],
            }
        } else {
            random_game(&mut rng, &seeds, 16, true)
        };
        let g2 = random_game(&mut rng, &seeds, 16, true);
        all.extend(schedules(&g1, &g2));
    }
    // positions whose capture search alone runs for seconds (many queens attacking each other):
    // a stop that waits for "the current iteration" or "the current capture search" to finish is
    // only slow there. Schedules that wait for the search to end by itself are left out.
    let heavy = corpus::queen_rich_seeds();
    for k in 0..(if thorough { heavy.len() } else { heavy.len().min(2) }) {
        let fen = &heavy[(k + ctx.seed as usize) % heavy.len()];
        let Ok(p) = Pos::from_fen(fen) else { continue };
        let g1 = Game {
            start_fen: fen.clone(),
            is_startpos: false,
            moves: vec![],
            positions: vec![p],
        };
        let g2 = random_game(&mut rng, &seeds, 16, true);
        let keep = ["stop-a-enter", "stop-b-started", "stop-d-mid", "stop-immediately", "main-held-after-spawn", "ucinewgame-during-search"];
        for mut sc in schedules(&g1, &g2) {
            let kind = sc.name.split('[').next().unwrap_or("").to_string();
            if keep.contains(&kind.as_str()) {
                sc.name = sc.name.replacen('[', "[queen-rich ", 1);
                all.push(sc);
                out::count("C10.forced_schedules_on_queen_rich_positions", 1);
            }
        }
    }
    // won endgames: tiny trees, mate scores from the fifth iteration on, dozens of iterations
    // within the 40 ms before the stop arrives (whatever an iteration does besides searching -
    // collecting the line, reporting - runs many times with the flag still up)
    let won = ["3k4/8/8/3K4/8/8/8/R7 w - - 0 1", "8/8/8/8/8/k7/2Q5/2K5 w - - 0 1", "8/8/8/4k3/8/8/1R6/K6R b - - 0 1"];
    for k in 0..won.len() {
        let fen = won[(k + ctx.seed as usize) % won.len()];
        let Ok(p) = Pos::from_fen(fen) else { continue };
        let g1 = Game {
            start_fen: fen.to_string(),
            is_startpos: false,
            moves: vec![],
            positions: vec![p],
        };
        let g2 = random_game(&mut rng, &seeds, 16, true);
        let keep = ["stop-d-mid", "stop-c-iter1", "position-and-isready-during-search", "ucinewgame-during-search", "stop-storm"];
        for mut sc in schedules(&g1, &g2) {
            let kind = sc.name.split('[').next().unwrap_or("").to_string();
            if keep.contains(&kind.as_str()) && !sc.name.contains("depth 3") && !sc.name.contains("nodes 400]") {
                sc.name = sc.name.replacen('[', "[won-endgame ", 1);
                if kind == "stop-d-mid" {
                    // the stop comes late: a dozen iterations have been completed by then
                    for st in &mut sc.steps {
                        if let Step::Sleep(ms) = st {
                            *ms = 600;
                        }
                    }
                }
                all.push(sc);
                out::count("C10.forced_schedules_on_won_endgames", 1);
            }
        }
    }
    out::count("C10.forced_schedules", all.len() as u64);
    let next = std::sync::atomic::AtomicUsize::new(0);
    let n_stress = if thorough { 1_500 } else { 160 };
    let cycles = if thorough { 30 } else { 12 };
    let n_burst = if thorough { 96 } else { 16 };
    let total = all.len() + n_stress + n_burst;
    let started = std::time::Instant::now();
    std::thread::scope(|s| {
        // forced schedules are timing sensitive: run at most 8 at a time
        for _ in 0..ctx.threads.clamp(1, 8) {
            s.spawn(|| loop {
                let i = next.fetch_add(1, std::sync::atomic::Ordering::Relaxed);
                if i >= total {
                    break;
                }
                if let Some(j) = ctx.only_job {
                    if j != i && j != 100_000 + i.saturating_sub(all.len()) {
                        continue;
                    }
                }
                if started.elapsed().as_secs() > ctx.time_cap {
                    out::inconclusive("C10 schedules not started because the time cap was reached", 1);
                    continue;
                }
                let r = std::panic::catch_unwind(std::panic::AssertUnwindSafe(|| {
                    if i < all.len() {
                        run_schedule(ctx, &all[i], i);
                    } else if i < all.len() + n_stress {
                        stress_session(ctx, i - all.len(), &seeds, cycles);
                    } else {
                        burst_session(ctx, i - all.len() - n_stress, 300);
                    }
                }));
                if let Err(e) = r {
                    out::harness_error(format!("harness panic in C10 job {i} at {}: {}", super::last_panic_location(), super::eng::panic_text(&e)));
                }
            });
        }
    });
    Ok(())
}
