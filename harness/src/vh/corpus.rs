//! Seed positions for the walkers. Data only; every FEN is validated by the oracle at start-up
//! (one king each, side not to move not in check) and a bad one is a harness error.
use super::oracle::{self, Pos};
use super::rng::Rng;

pub const EDGE_FENS: &[&str] = &[
    // classical perft positions
    "rnbqkbnr/pppppppp/8/8/8/8/PPPPPPPP/RNBQKBNR w KQkq - 0 1",
    "r3k2r/p1ppqpb1/bn2pnp1/3PN3/1p2P3/2N2Q1p/PPPBBPPP/R3K2R w KQkq - 0 1",
    "8/2p5/3p4/KP5r/1R3p1k/8/4P1P1/8 w - - 0 1",
    "r3k2r/Pppp1ppp/1b3nbN/nP6/BBP1P3/q4N2/Pp1P2PP/R2Q1RK1 w kq - 0 1",
    "rnbq1k1r/pp1Pbppp/2p5/8/2B5/8/PPP1NnPP/RNBQK2R w KQ - 1 8",
    "r4rk1/1pp1qppp/p1np1n2/2b1p1B1/2B1P1b1/P1NP1N2/1PP1QPPP/R4RK1 w - - 0 10",
    // en passant traps
    "3k4/3p4/8/K1P4r/8/8/8/8 b - - 0 1",
    "8/8/4k3/8/2p5/8/B2P2K1/8 w - - 0 1",
    "8/8/1k6/2b5/2pP4/8/5K2/8 b - d3 0 1",
    "8/8/8/K2pP2r/8/8/8/4k3 w - d6 0 1",
    "8/8/8/1k6/3Pp3/8/8/4KQ2 b - d3 0 1",
    "8/8/8/2k5/3Pp3/8/8/4K3 b - d3 0 1",
    "4k3/8/8/8/pP6/8/8/4K3 b - b3 0 1",
    "4k3/8/8/6Pp/8/8/8/4K3 w - h6 0 1",
    "4k3/8/8/1pP5/8/8/8/4K3 w - b6 0 1",
    "8/8/8/8/1k1Pp2Q/8/8/4K3 b - d3 0 1",
    "4k3/8/8/2PpP3/8/8/8/4K3 w - d6 0 1",
    "k7/8/8/3pP3/8/8/8/4K2B w - d6 0 1",
    "4r2k/8/8/3pP3/8/8/8/4K3 w - d6 0 1",
    // castling
    "5k2/8/8/8/8/8/8/4K2R w K - 0 1",
    "3k4/8/8/8/8/8/8/R3K3 w Q - 0 1",
    "r3k2r/1b4bq/8/8/8/8/7B/R3K2R w KQkq - 0 1",
    "r3k2r/8/3Q4/8/8/5q2/8/R3K2R b KQkq - 0 1",
    "r3k2r/8/8/8/8/8/8/R3K2R w KQkq - 0 1",
    "1r2k2r/8/8/8/8/8/8/R3K2R w KQk - 0 1",
    "2r1k2r/8/8/8/8/8/8/R3K2R w KQk - 0 1",
    "3rk2r/8/8/8/8/8/8/R3K2R w KQk - 0 1",
    "r3kr2/8/8/8/8/8/8/R3K2R w KQq - 0 1",
    "r3k1r1/8/8/8/8/8/8/R3K2R w KQq - 0 1",
    "r3k2r/8/8/8/8/5b2/8/R3K2R w KQkq - 0 1",
    "r3k2r/8/8/8/8/8/6p1/R3K2R w KQkq - 0 1",
    "r3k2r/8/8/8/8/2n5/8/R3K2R w KQkq - 0 1",
    "r3k2r/8/8/8/8/n7/8/R3K2R w KQkq - 0 1",
    "r3k2r/8/8/8/8/7n/8/R3K2R w KQkq - 0 1",
    "r3k2r/8/8/8/8/8/1p6/R3K2R w KQkq - 0 1",
    "r3k2r/8/8/8/8/8/2p5/R3K2R w KQkq - 0 1",
    "r3k2r/8/8/8/8/8/8/RN2K1NR w KQkq - 0 1",
    "r3k2r/8/8/8/8/8/8/R2QKB1R w KQkq - 0 1",
    "r3k2r/8/8/8/8/8/8/R3K2R w Kq - 0 1",
    "r3k2r/8/8/8/8/8/8/R3K2R b Qk - 0 1",
    "4k3/8/8/8/7b/3n4/8/R3K2R w KQ - 0 1",
    // a king next to an unmoved enemy corner rook whose right is still held; rook lifts on edge files
    "4k2r/6K1/8/8/8/8/8/8 w k - 0 1",
    "4k2r/p5K1/8/8/8/8/8/8 w k - 0 1",
    "r3k3/1K6/8/8/8/8/8/8 w q - 0 1",
    "8/8/8/8/8/1N6/1k6/R3K3 b Q - 0 1",
    "8/8/8/8/8/8/6k1/4K2R b K - 0 1",
    "4k3/8/8/8/8/R7/8/4K2R w K - 0 1",
    "r3k3/8/7r/8/8/8/8/4K3 b q - 0 1",
    // a rook or queen (not the king) can play e1g1/e1c1/e1a1/e1h1 or e8g8/e8c8/e8a8/e8h8 while
    // castling rights are still around: coordinate strings that look like castling
    "4r1k1/5ppp/8/8/8/8/4PPPP/R3K2R b KQ - 0 1",
    "4q1k1/5ppp/8/8/8/8/4PPPP/R3K2R b KQ - 0 1",
    "2k1r3/ppp5/8/8/8/8/PPP1P3/R3K2R b KQ - 0 1",
    "r3k2r/4pppp/8/8/8/8/5PPP/4R1K1 w kq - 0 1",
    "r3k2r/ppp1p3/8/8/8/8/PPP5/2K1R3 w kq - 0 1",
    "r3k2r/4pppp/8/8/8/8/5PPP/4Q1K1 w kq - 0 1",
    // one move before an en-passant capture that is illegal because both pawns leave the rank /
    // diagonal of a pin (the double push happens inside the search), and castling that mates
    "8/8/8/8/1k2p2Q/8/3P4/4K3 w - - 0 1",
    "8/3p4/8/K3P2r/8/8/8/4k3 b - - 0 1",
    "4r2k/3p4/8/4P3/8/8/8/4K3 b - - 0 1",
    "k7/3p4/8/4P3/8/8/8/4K2B b - - 0 1",
    "4rkr1/4p1p1/8/8/8/8/8/4K2R w K - 0 1",
    "1rkr4/1p1p4/8/8/8/8/8/R3K3 w Q - 0 1",
    // rooks captured on their corners
    "r3k2r/8/8/8/8/8/1B4B1/R3K2R w KQkq - 0 1",
    "r3k2r/8/1N4N1/8/8/1n4n1/8/R3K2R w KQkq - 0 1",
    "r3k2r/1P4P1/8/8/8/8/1p4p1/R3K2R w KQkq - 0 1",
    "r3k2r/1P4P1/8/8/8/8/1p4p1/R3K2R b KQkq - 0 1",
    "r3k2r/8/8/8/8/8/Q6Q/R3K2R w KQkq - 0 1",
    // promotions
    "2K2r2/4P3/8/8/8/8/8/3k4 w - - 0 1",
    "4k3/1P6/8/8/8/8/K7/8 w - - 0 1",
    "8/P1k5/K7/8/8/8/8/8 w - - 0 1",
    "n1n5/PPPk4/8/8/8/8/4Kppp/5N1N b - - 0 1",
    "n1n5/PPPk4/8/8/8/8/4Kppp/5N1N w - - 0 1",
    "rnb1kbnr/pPpp1ppp/8/8/8/8/PpPP1PPP/RNB1KBNR w KQkq - 0 1",
    // check / mate / stalemate nets
    "8/8/1P2K3/8/2n5/1q6/8/5k2 b - - 0 1",
    "K1k5/8/P7/8/8/8/8/8 w - - 0 1",
    "8/k1P5/8/1K6/8/8/8/8 w - - 0 1",
    "8/8/2k5/5q2/5n2/8/5K2/8 b - - 0 1",
    "rnb1kbnr/pppp1ppp/8/4p3/6Pq/5P2/PPPPP2P/RNBQKBNR w KQkq - 1 3",
    "7k/5Q2/6K1/8/8/8/8/8 b - - 0 1",
    "8/8/8/3k4/8/3K4/8/8 w - - 0 1",
    "k7/8/8/7p/P7/8/8/K7 w - - 0 1",
    "QQ6/6k1/8/8/8/8/6K1/qq6 w - - 0 1",
    "6k1/5ppp/8/8/8/8/5PPP/R5K1 w - - 0 1",
    "r1bqkb1r/pppp1ppp/2n2n2/4p2Q/2B1P3/8/PPPP1PPP/RNB1K1NR w KQkq - 4 4",
    "4k3/4r3/8/8/8/8/4R3/4K3 w - - 0 1",
    "4k3/8/8/b7/8/8/3P4/4K3 w - - 0 1",
    "8/8/8/8/8/5k2/4p3/4K3 w - - 0 1",
    // move number 0 (seen in the wild) and clocks beyond 100 (legal up to the 75-move rule)
    "r3k2r/pppq1ppp/2n2n2/3pp3/3PP3/2N2N2/PPPQ1PPP/R3K2R b KQkq - 4 0",
    "rnbqkbnr/pppppppp/8/8/8/8/PPPPPPPP/RNBQKBNR w KQkq - 0 0",
    "8/5k2/8/8/8/8/2K5/4R3 b - - 101 130",
    "8/5k2/8/8/8/8/2K5/4R3 w - - 120 140",
    "4k3/8/8/8/8/8/4K3/R7 w - - 149 200",
    // very many moves for one side (218 and more than 128 pseudo-legal), few captures
    "R6R/3Q4/1Q4Q1/4Q3/2Q4Q/Q4Q2/pp1Q4/kBNN1KB1 w - - 0 1",
    "3Q4/1Q4Q1/4Q3/2Q4R/Q4Q2/3Q4/1Q4Rp/1K1BBNNk w - - 0 1",
    // terminal positions (nothing legal) with young and old clocks
    "7k/5K2/6Q1/8/8/8/8/8 b - - 100 120",
    "7k/5K2/6Q1/8/8/8/8/8 b - - 3 120",
    "R5k1/5ppp/8/8/8/8/5PPP/6K1 b - - 104 60",
    // large counters
    "8/5k2/8/8/8/8/2K5/4R3 w - - 90 120",
    "r3k2r/8/8/8/8/8/8/R3K2R w KQkq - 95 80",
    "r1bq1rk1/pp2ppbp/2np1np1/8/3NP3/2N1BP2/PPPQ2PP/R3KB1R w KQ - 98 3000",
    "8/8/4k3/8/8/3K4/8/7R b - - 99 5990",
    // won endgames with a forced mate several moves deep (mate scores at every depth from 5 or so)
    "3k4/8/8/3K4/8/8/8/R7 w - - 0 1",
    "8/8/8/8/8/k7/2Q5/2K5 w - - 0 1",
    "8/8/8/4k3/8/8/1R6/K6R b - - 0 1",
    // frozen armies: one side has not a single pseudo-legal move (every unit blocked by its own men,
    // by the edge or by an enemy pawn straight ahead) - at the root's reply, or once its last free
    // pawn has been blocked by the king; the other side moves freely
    "4brkb/3p1pbp/3P1p1p/5P1P/8/8/4K3/1N6 w - - 0 1",
    "bkrb4/pbp1p3/p1p1P3/P1P5/8/8/3K4/6N1 w - - 0 1",
    "4brkb/3p1pbp/3P1p1p/5P1P/8/p7/8/1K6 w - - 0 1",
    "4brkb/3p1pbp/3P1p1p/5P1P/p7/8/1K6/8 b - - 0 1",
    "4brkb/3p1pbp/3P1p1p/5P1P/8/8/8/3K4 b - - 0 1",
];

/// Full-board positions with heavy mutual tension: long capture chains, deep quiescence.
pub const TENSE_FENS: &[&str] = &[
    "1k1r3r/ppq2ppp/2nbbn2/2ppp3/2PPP3/2NBBN2/PPQ2PPP/1K1R3R w - - 0 1",
    "2kr3r/ppp1qppp/2nbbn2/3pp3/3PP3/2NBBN2/PPP1QPPP/2KR3R w - - 0 1",
    "r3k2r/ppp1qppp/2nbbn2/3pp3/3PP3/2NBBN2/PPP1QPPP/R3K2R w KQkq - 0 1",
    "r2q1rk1/pp1bbppp/2n1pn2/2pp4/2PP4/2N1PN2/PP1BBPPP/R2Q1RK1 w - - 0 1",
    "r1bq1rk1/pp2bppp/2n1pn2/2pp4/2PP4/2N1PN2/PP2BPPP/R1BQ1RK1 w - - 0 9",
    "1k1r3r/pp1q1ppp/2nbbn2/2ppp3/2PPP3/2NBBN2/PP1Q1PPP/1K1R3R b - - 0 1",
    "2r2rk1/pp1qbppp/2nppn2/2p5/2PPP3/2N1BN2/PP2QPPP/2RR2K1 w - - 0 1",
];

/// Many queens facing each other: capture sequences explode. Only used where the limits bound
/// the TIME of a search (C09 / C14 sessions); a depth or node limit bounds nothing here.
pub const QUEEN_RICH_FENS: &[&str] = &[
    "6rk/6pp/qQqQqQ2/QqQqQq2/qQ6/8/PP6/KR6 w - - 0 1",
    "7k/6pp/QqQqQq2/qQqQqQ2/8/8/PP6/K7 w - - 0 1",
    "k7/pp6/8/8/2qQqQqQ/2QqQqQq/6PP/7K b - - 0 1",
    // twelve queens a side on open files: the capture search below the first ply runs for minutes
    "1qqqqqqk/1qqqqqq1/8/8/8/8/1QQQQQQ1/KQQQQQQ1 w - - 0 1",
];

pub fn queen_rich_seeds() -> Vec<String> {
    QUEEN_RICH_FENS.iter().filter(|f| Pos::from_fen(f).map(|p| p.is_sane()).unwrap_or(false)).map(|f| (*f).to_string()).collect()
}

/// Tense positions and their colour mirrors, validated.
pub fn tense_seeds() -> Vec<String> {
    let mut out = Vec::new();
    for f in TENSE_FENS {
        if let Ok(p) = Pos::from_fen(f) {
            if p.is_sane() {
                out.push(p.fen());
                let m = p.mirror();
                if m.is_sane() && !out.contains(&m.fen()) {
                    out.push(m.fen());
                }
            }
        }
    }
    out
}

/// FEN strings of the engine's own bench, read from the source file at run time (data only).
pub fn bench_fens() -> Vec<String> {
    let mut out = Vec::new();
    let repo = std::env::var("RCE_REPO").unwrap_or_else(|_| "/repo".to_string());
    if let Ok(text) = std::fs::read_to_string(format!("{repo}/src/bench.rs")) {
        for piece in text.split('"').skip(1).step_by(2) {
            if piece.matches('/').count() == 7 && Pos::from_fen(piece).is_ok() {
                out.push(piece.to_string());
            }
        }
    }
    out
}

/// All seeds: edge cases, their colour mirrors, and the bench set. Validated.
pub fn all_seeds() -> Result<Vec<String>, String> {
    let mut out: Vec<String> = Vec::new();
    for f in EDGE_FENS {
        let p = Pos::from_fen(f)?;
        if !p.is_sane() {
            return Err(format!("corpus FEN is not a valid position: {f}"));
        }
        if p.fen() != *f {
            return Err(format!("corpus FEN is not canonical: {f} vs {}", p.fen()));
        }
        out.push((*f).to_string());
        let m = p.mirror();
        if !m.is_sane() {
            return Err(format!("mirror of corpus FEN is not valid: {f}"));
        }
        let mf = m.fen();
        if !out.contains(&mf) {
            out.push(mf);
        }
    }
    for f in tense_seeds() {
        if !out.contains(&f) {
            out.push(f);
        }
    }
    for f in bench_fens() {
        let p = Pos::from_fen(&f)?;
        if p.is_sane() && !out.contains(&f) {
            out.push(f);
        }
    }
    Ok(out)
}

/// A random sparse position (kings + a few units), valid by construction or None.
pub fn random_sparse(rng: &mut Rng, max_units: u64) -> Option<Pos> {
    let mut sq = [0u8; 64];
    let wk = rng.below(64) as usize;
    let mut bk = rng.below(64) as usize;
    while bk == wk {
        bk = rng.below(64) as usize;
    }
    sq[wk] = oracle::K;
    sq[bk] = oracle::K | oracle::BLACK;
    let units = 1 + rng.below(max_units);
    for _ in 0..units {
        let s = rng.below(64) as usize;
        if sq[s] != 0 {
            continue;
        }
        let kind = *rng.pick(&[oracle::P, oracle::P, oracle::P, oracle::N, oracle::B, oracle::R, oracle::Q]);
        if kind == oracle::P && (s < 8 || s >= 56) {
            continue;
        }
        let col = rng.below(2) as u8;
        sq[s] = kind | (col << 3);
    }
    let p = Pos {
        sq,
        stm: rng.below(2) as u8,
        castle: 0,
        ep: -1,
        half: rng.below(5) as u32,
        full: 1 + rng.below(60) as u32,
    };
    if p.is_sane() {
        Some(p)
    } else {
        None
    }
}

/// A crowded position whose pieces alternate with single empty squares on every rank, so that the
/// placement field of its FEN is as long as a placement can be (up to 71 characters; positions
/// from play rarely exceed 60). Up to three pieces are taken out again. Castling rights are given
/// when king and rook stand on their home squares.
pub fn random_dense(rng: &mut Rng) -> Option<Pos> {
    let mut sq = [0u8; 64];
    let mut slots: Vec<usize> = Vec::new();
    for r in 0..8usize {
        let phase = rng.below(2) as usize;
        for k in 0..4 {
            slots.push(r * 8 + 2 * k + phase);
        }
    }
    // kings: the white one on the lower half, the black one on the upper half; e1/e8 preferred
    let wk = if slots.contains(&4) && rng.chance(1, 2) { 4 } else { *rng.pick(&slots[..12]) };
    let bk = if slots.contains(&60) && rng.chance(1, 2) { 60 } else { *rng.pick(&slots[20..]) };
    sq[wk] = oracle::K;
    sq[bk] = oracle::K | oracle::BLACK;
    let mut count = [1u32, 1u32];
    for &s in &slots {
        if sq[s] != 0 {
            continue;
        }
        let r = s / 8;
        // colour by half of the board, with some mixing in the middle
        let col: u8 = if r < 3 { 0 } else if r > 4 { 1 } else { rng.below(2) as u8 };
        if count[col as usize] >= 16 {
            continue;
        }
        let kind = if (1..7).contains(&r) && rng.chance(3, 5) {
            oracle::P
        } else {
            *rng.pick(&[oracle::N, oracle::N, oracle::B, oracle::B, oracle::R, oracle::Q])
        };
        if kind == oracle::P && (r == 0 || r == 7) {
            continue;
        }
        sq[s] = kind | (col << 3);
        count[col as usize] += 1;
    }
    for _ in 0..rng.below(4) {
        let s = *rng.pick(&slots);
        if oracle::kind(sq[s]) != oracle::K {
            sq[s] = 0;
        }
    }
    let mut castle = 0u8;
    if sq[4] == oracle::K {
        if sq[7] == oracle::R && rng.chance(2, 3) {
            castle |= oracle::WK;
        }
        if sq[0] == oracle::R && rng.chance(2, 3) {
            castle |= oracle::WQ;
        }
    }
    if sq[60] == (oracle::K | oracle::BLACK) {
        if sq[63] == (oracle::R | oracle::BLACK) && rng.chance(2, 3) {
            castle |= oracle::BK;
        }
        if sq[56] == (oracle::R | oracle::BLACK) && rng.chance(2, 3) {
            castle |= oracle::BQ;
        }
    }
    let p = Pos {
        sq,
        stm: rng.below(2) as u8,
        castle,
        ep: -1,
        half: rng.below(100) as u32,
        full: 1 + rng.below(3000) as u32,
    };
    if p.is_sane() && !p.legal_moves().is_empty() {
        Some(p)
    } else {
        None
    }
}
