//! In-process monitors of the real `Search`: C11 (reference value), C13 (prefix conservation of
//! cache writes), C16 (determinism). One search at a time per process (the cache is a static);
//! the python driver shards jobs over processes.
use std::collections::HashMap;
use std::sync::atomic::Ordering;

use crate::board::transposition_table::{TTEntry, TRANSPOSITION_TABLE};
use crate::board::zkey::ZKey;
use crate::board::{Board, Ply};
use crate::evaluate::simple_evaluator::SimpleEvaluator;
use crate::evaluate::Evaluator;
use crate::search::limits::SearchLimits;
use crate::search::Search;
use crate::verif_hooks::{self, TtEvent};

use super::corpus;
use super::eng::{self, key_u64};
use super::oracle::Pos;
use super::out::{self, esc};
use super::rng::Rng;

#[derive(Clone, Debug)]
pub struct PosSpec {
    pub fen: String,
    pub moves: Vec<String>,
}

impl PosSpec {
    pub fn build(&self) -> Result<(Board, Pos), String> {
        let mut b = eng::load(&self.fen)?;
        let mut p = Pos::from_fen(&self.fen)?;
        for m in &self.moves {
            let om = p.find_uci(m).ok_or_else(|| format!("oracle: move {m} not legal"))?;
            let plies = b.clone().get_legal_moves();
            let ply = plies
                .iter()
                .find(|x| eng::ply_matches(x, &om))
                .ok_or_else(|| format!("engine does not offer {m}"))?;
            b.make_move(*ply);
            p = p.make(&om);
        }
        Ok((b, p))
    }
    pub fn json(&self) -> String {
        format!("\"fen\":{},\"moves\":{}", esc(&self.fen), out::str_list(&self.moves))
    }
    pub fn text(&self) -> String {
        if self.moves.is_empty() {
            format!("'{}'", self.fen)
        } else {
            format!("'{}' moves [{}]", self.fen, self.moves.join(" "))
        }
    }
}

pub fn clear_tt() {
    TRANSPOSITION_TABLE.write().unwrap_or_else(std::sync::PoisonError::into_inner).clear();
}

pub fn tt_snapshot() -> HashMap<u64, TTEntry> {
    TRANSPOSITION_TABLE
        .read()
        .unwrap_or_else(std::sync::PoisonError::into_inner)
        .iter()
        .map(|(k, v)| (key_u64(*k), *v))
        .collect()
}

/// Positions for the search monitors: corpus + bench + positions with history from random games.
pub fn positions(seed: u64, n_random_hist: usize, n_sparse: usize) -> Result<Vec<PosSpec>, String> {
    let seeds = corpus::all_seeds()?;
    let mut out: Vec<PosSpec> = seeds
        .iter()
        // (positions with more than 100 legal moves are for the board-level walkers, a fixed-depth
        // search of them with the cache off is far too expensive)
        .filter(|f| !Pos::from_fen(f).map(|p| { let n = p.legal_moves().len(); n == 0 || n > 100 }).unwrap_or(true))
        .map(|f| PosSpec {
            fen: f.clone(),
            moves: vec![],
        })
        .collect();
    let mut rng = Rng::derive(seed, 0x5EA2C4);
    // positions with game history: random games from seeds (some with a high half-move clock),
    // with shuffles so that repetitions are within the search's reach
    let mut tries = 0;
    while out.len() < seeds.len() + n_random_hist && tries < n_random_hist * 20 {
        tries += 1;
        let fen = if rng.chance(1, 3) { seeds[0].clone() } else { rng.pick(&seeds).clone() };
        let Ok(mut p) = Pos::from_fen(&fen) else { continue };
        if rng.chance(1, 4) {
            p.half = 88 + rng.below(11) as u32;
            p.ep = -1;
        }
        let fen = p.fen();
        let mut moves = Vec::new();
        let len = 2 + rng.below(30);
        let mut ok = true;
        for _ in 0..len {
            let lm = p.legal_moves();
            if lm.is_empty() {
                ok = false;
                break;
            }
            // shuffle with probability 1/5: knight/piece out and back by both sides
            let m = if rng.chance(1, 5) && moves.len() >= 2 {
                // try to undo my own previous move (a reversible move back)
                let prev: &String = &moves[moves.len() - 2];
                let back = format!("{}{}", &prev[2..4], &prev[0..2]);
                lm.iter().find(|x| x.uci() == back && x.captured == 0).copied().unwrap_or(*rng.pick(&lm))
            } else {
                *rng.pick(&lm)
            };
            moves.push(m.uci());
            p = p.make(&m);
        }
        if !ok || p.legal_moves().is_empty() {
            continue;
        }
        out.push(PosSpec { fen, moves });
    }
    // check-rich positions: long play-outs that prefer checking moves (open boards, cross-checks)
    let n_checky = n_random_hist / 3;
    let mut made = 0;
    let mut tries2 = 0;
    while made < n_checky && tries2 < n_checky * 30 {
        tries2 += 1;
        let mut p = Pos::startpos();
        let fen = p.fen();
        let mut moves = Vec::new();
        let len = 30 + rng.below(90);
        let mut ok = true;
        for _ in 0..len {
            let lm = p.legal_moves();
            if lm.is_empty() {
                ok = false;
                break;
            }
            let checks: Vec<_> = lm.iter().filter(|m| { let q = p.make(m); q.in_check(q.stm) }).copied().collect();
            let m = if !checks.is_empty() && rng.chance(1, 2) { *rng.pick(&checks) } else { *rng.pick(&lm) };
            moves.push(m.uci());
            p = p.make(&m);
        }
        if !ok || p.legal_moves().is_empty() || p.half >= 90 {
            continue;
        }
        // half of them as a bare FEN (no history), half with the whole game as history
        if rng.chance(1, 2) {
            out.push(PosSpec { fen: p.fen(), moves: vec![] });
        } else {
            out.push(PosSpec { fen, moves });
        }
        made += 1;
    }
    // the fifty-move frontier: sparse unbalanced positions whose clock reaches 100 inside the search
    let n_fifty = n_sparse / 2;
    let mut made = 0;
    let mut tries3 = 0;
    while made < n_fifty && tries3 < n_fifty * 60 {
        tries3 += 1;
        if let Some(mut p) = corpus::random_sparse(&mut rng, 5) {
            p.half = 94 + rng.below(6) as u32;
            p.ep = -1;
            if p.legal_moves().is_empty() {
                continue;
            }
            // sometimes a few reversible moves played on top (history + clock moving towards 100)
            let mut moves = Vec::new();
            let fen = p.fen();
            if rng.chance(1, 2) {
                for _ in 0..(1 + rng.below(3)) {
                    let lm: Vec<_> = p.legal_moves().into_iter().filter(|m| m.captured == 0 && super::oracle::kind(m.piece) != super::oracle::P).collect();
                    if lm.is_empty() || p.half >= 99 {
                        break;
                    }
                    let m = *rng.pick(&lm);
                    moves.push(m.uci());
                    p = p.make(&m);
                }
                if p.legal_moves().is_empty() {
                    continue;
                }
            }
            out.push(PosSpec { fen, moves });
            made += 1;
        }
    }
    let mut sparse = 0;
    let mut guard = 0;
    while sparse < n_sparse && guard < n_sparse * 50 {
        guard += 1;
        if let Some(p) = corpus::random_sparse(&mut rng, 6) {
            if !p.legal_moves().is_empty() {
                out.push(PosSpec {
                    fen: p.fen(),
                    moves: vec![],
                });
                sparse += 1;
            }
        }
    }
    Ok(out)
}

// ---------------------------------------------------------------------------
// Reference search (C11): plain fail-soft alpha-beta over the engine's own game primitives,
// no cache, no PVS, no killers; cross-checked against pure minimax where affordable.
// ---------------------------------------------------------------------------

pub struct Ref<'a, E: Evaluator> {
    pub ev: &'a E,
    pub nodes: u64,
    pub budget: u64,
    pub pruning: bool,
}

const INF: i32 = 1_000_000;
const MIN_SCORE: i32 = i16::MIN as i32;

fn mvv_key(p: &Ply) -> i32 {
    // most valuable victim first, then promotions; purely a speed-up of the reference
    let v = match p.captured_piece.map(eng::kind_code).map(|c| c & 7) {
        Some(5) => 900,
        Some(4) => 500,
        Some(3) | Some(2) => 300,
        Some(1) => 100,
        _ => 0,
    };
    let a = match eng::kind_code(p.piece) & 7 {
        5 => 9,
        4 => 5,
        3 | 2 => 3,
        1 => 1,
        _ => 0,
    };
    -(v * 10 - a + if p.promoted_to.is_some() { 50 } else { 0 })
}

impl<'a, E: Evaluator> Ref<'a, E> {
    /// Value of the node for the side to move, `ply` = distance from the root.
    /// Returns None when the node budget ran out.
    pub fn node(&mut self, b: &mut Board, mut alpha: i32, beta: i32, depth: u32, ply: u32) -> Option<i32> {
        self.nodes += 1;
        if self.nodes > self.budget {
            return None;
        }
        if b.get_halfmove_clock() >= 100 {
            return Some(0);
        }
        if b.position_reached(b.zkey) {
            return Some(0);
        }
        let in_check = b.is_in_check(b.current_turn);
        let depth = depth + u32::from(in_check);
        if depth == 0 {
            return self.quiesce(b, alpha, beta);
        }
        let mut moves = b.get_legal_moves();
        if moves.is_empty() {
            return Some(if in_check { MIN_SCORE + ply as i32 } else { 0 });
        }
        if self.pruning {
            moves.sort_by_key(mvv_key);
        }
        let mut best = -INF;
        for mv in moves {
            b.make_move(mv);
            let v = self.node(b, -beta, -alpha, depth - 1, ply + 1);
            b.unmake_move();
            let v = -v?;
            if v > best {
                best = v;
            }
            if self.pruning {
                if best > alpha {
                    alpha = best;
                }
                if alpha >= beta {
                    break;
                }
            }
        }
        Some(best)
    }

    fn quiesce(&mut self, b: &mut Board, mut alpha: i32, beta: i32) -> Option<i32> {
        self.nodes += 1;
        if self.nodes > self.budget {
            return None;
        }
        let stand = i32::from(self.ev.evaluate(b));
        let mut best = stand;
        if self.pruning {
            if best >= beta {
                return Some(best);
            }
            if best > alpha {
                alpha = best;
            }
        }
        let mut caps: Vec<Ply> = b.get_legal_moves().into_iter().filter(Ply::is_capture).collect();
        if self.pruning {
            caps.sort_by_key(mvv_key);
        }
        for mv in caps {
            b.make_move(mv);
            let v = self.quiesce(b, -beta, -alpha);
            b.unmake_move();
            let v = -v?;
            if v > best {
                best = v;
            }
            if self.pruning {
                if best > alpha {
                    alpha = best;
                }
                if alpha >= beta {
                    break;
                }
            }
        }
        Some(best)
    }
}

fn clamp_score(v: i32) -> i32 {
    // the engine negates with saturation in i16
    v.clamp(-32767, 32767)
}

pub struct RootRef {
    pub best: i32,
    pub of_engine_move: i32,
    pub best_moves: Vec<String>,
}

/// Exact value of every root move needed for the verdict: the engine's move with a full window,
/// the others with alpha = that value (fail-soft: anything above it is reported exactly enough).
pub fn reference_root<E: Evaluator>(
    b: &Board,
    ev: &E,
    depth: u32,
    engine_move: &str,
    budget: u64,
    pruning: bool,
) -> Option<RootRef> {
    let mut b = b.clone();
    let moves = b.get_legal_moves();
    let mut r = Ref {
        ev,
        nodes: 0,
        budget,
        pruning,
    };
    let em = moves.iter().find(|m| m.to_notation() == engine_move)?;
    b.make_move(*em);
    let v = r.node(&mut b, -INF, INF, depth - 1, 1);
    b.unmake_move();
    let of_engine = clamp_score(-v?);
    let mut best = of_engine;
    let mut best_moves = vec![engine_move.to_string()];
    for mv in &moves {
        if mv.to_notation() == engine_move {
            continue;
        }
        b.make_move(*mv);
        // is this move better than the engine's? full window keeps it exact; with pruning use
        // (best, INF) so that anything not better fails low cheaply
        let v = if pruning {
            r.node(&mut b, -INF, -best, depth - 1, 1)
        } else {
            r.node(&mut b, -INF, INF, depth - 1, 1)
        };
        b.unmake_move();
        let v = clamp_score(-v?);
        if v > best {
            best = v;
            best_moves = vec![mv.to_notation()];
        } else if v == best && !pruning {
            best_moves.push(mv.to_notation());
        }
    }
    Some(RootRef {
        best,
        of_engine_move: of_engine,
        best_moves,
    })
}

pub struct SearchResult {
    pub best: Option<String>,
    pub score: Option<i16>,
    pub seldepth: u8,
    pub nodes: u64,
    pub panicked: Option<String>,
}

/// Runs the real search in-process. Panics of the search are caught and reported.
pub fn engine_search(b: &Board, limits: Option<SearchLimits>, depth: Option<u8>) -> SearchResult {
    let board = b.clone();
    let r = std::panic::catch_unwind(std::panic::AssertUnwindSafe(|| {
        let mut s = Search::new(&board, limits);
        let pr = std::panic::catch_unwind(std::panic::AssertUnwindSafe(|| {
            s.search(&SimpleEvaluator, depth);
        }));
        let (bm, sc, sd) = s.verif_info();
        // the engine's choice is the move of its bestmove line; the recorded best move of the last
        // completed iteration is only a fallback for a search that did not get that far
        let chosen = match s.verif_announced() {
            Some(Some(p)) => Some(p.to_notation()),
            Some(None) => Some("0000".to_string()),
            None => bm.map(|p| p.to_notation()),
        };
        (chosen, sc, sd, s.get_nodes(), pr.err().map(|e| eng::panic_text(&e)))
    }));
    match r {
        Ok((best, score, seldepth, nodes, panicked)) => SearchResult {
            best,
            score,
            seldepth,
            nodes,
            panicked,
        },
        Err(e) => SearchResult {
            best: None,
            score: None,
            seldepth: 0,
            nodes: 0,
            panicked: Some(eng::panic_text(&e)),
        },
    }
}

// ---------------------------------------------------------------------------
// C11
// ---------------------------------------------------------------------------

pub fn run_c11(tier: &str, seed: u64, shard: usize, of: usize, only_job: Option<usize>, time_cap: u64) -> Result<(), String> {
    let thorough = tier == "thorough";
    let specs = positions(seed, if thorough { 6000 } else { 240 }, if thorough { 3000 } else { 160 })?;
    let started = std::time::Instant::now();
    let ev = SimpleEvaluator;
    let mut distinct = std::collections::HashSet::new();
    let mut job = 0usize;
    for spec in &specs {
        let units = Pos::from_fen(&spec.fen).map(|p| p.sq.iter().filter(|&&x| x != 0).count()).unwrap_or(32);
        let max_depth = if units <= 6 { 6 } else if units <= 10 { 5 } else { 4 };
        let max_depth = if thorough { max_depth } else if job % 2 == 0 { max_depth.min(4) } else { max_depth.min(3) };
        for depth in 1..=max_depth {
            job += 1;
            if job % of != shard {
                continue;
            }
            if let Some(j) = only_job {
                if j != job {
                    continue;
                }
            }
            if started.elapsed().as_secs() > time_cap {
                out::inconclusive("C11 jobs not started because the time cap was reached", 1);
                continue;
            }
            let (b, _p) = match spec.build() {
                Ok(x) => x,
                Err(e) => {
                    out::inconclusive(&format!("C11 position could not be set up ({e})"), 1);
                    continue;
                }
            };
            c11_case(&b, spec, depth as u8, job, &ev, &mut distinct);
        }
    }
    out::count("C11.nontrivial", distinct.len() as u64);
    Ok(())
}

fn c11_case(b: &Board, spec: &PosSpec, depth: u8, job: usize, ev: &SimpleEvaluator, distinct: &mut std::collections::HashSet<u64>) {
    verif_hooks::TT_OFF.store(true, Ordering::Relaxed);
    clear_tt();
    verif_hooks::audit_start();
    let r = engine_search(b, None, Some(depth));
    let audit = verif_hooks::audit_take();
    verif_hooks::TT_OFF.store(false, Ordering::Relaxed);
    let replay = format!("{{\"kind\":\"c11\",{},\"depth\":{},\"job\":{}}}", spec.json(), depth, job);
    // the look-ahead game itself, asserted at every node the real search visits: only legal moves
    // are played, and a side in check is never handed to the capture search (it gets its extra ply)
    out::count("C11.audited_search_moves", audit.moves);
    out::count("C11.audited_horizon_nodes", audit.horizons);
    if audit.illegal_moves > 0 {
        out::violation(
            "C11",
            "search-plays-illegal-move",
            format!(
                "depth {depth}: the search made {} move(s) that leave the mover's own king attacked (of {} moves audited), first {}; on {}",
                audit.illegal_moves,
                audit.moves,
                audit.first_illegal.clone().unwrap_or_default().replace('\n', " / "),
                spec.text()
            ),
            replay.clone(),
        );
    }
    out::count("C11.audited_moves_looked_up_in_the_legal_move_list", audit.membership_checked);
    if audit.not_generated > 0 {
        out::violation(
            "C11",
            "search-plays-move-not-generated",
            format!(
                "depth {depth}: the search made {} move(s) that the move generator does not offer in the position they were made in (of {} looked up), first {}; on {}",
                audit.not_generated,
                audit.membership_checked,
                audit.first_not_generated.clone().unwrap_or_default().replace('\n', " / "),
                spec.text()
            ),
            replay.clone(),
        );
    }
    if audit.horizons_in_check > 0 {
        out::violation(
            "C11",
            "in-check-node-sent-to-capture-search",
            format!(
                "depth {depth}: {} node(s) with the side to move in check were handed to the capture search without the extra ply (of {} horizon nodes), first {}; on {}",
                audit.horizons_in_check,
                audit.horizons,
                audit.first_horizon_in_check.clone().unwrap_or_default().replace('\n', " / "),
                spec.text()
            ),
            replay.clone(),
        );
    }
    if let Some(p) = &r.panicked {
        out::violation(
            "C11",
            &format!("panic@{}", super::last_panic_location()),
            format!("search to depth {depth} panicked ({p}) on {}", spec.text()),
            replay,
        );
        return;
    }
    let (Some(best), Some(score)) = (r.best.clone(), r.score) else {
        out::inconclusive("C11 search returned no result (no legal move at the root)", 1);
        return;
    };
    let budget = 6_000_000;
    let Some(rr) = reference_root(b, ev, u32::from(depth), &best, budget, true) else {
        out::inconclusive("C11 reference search exceeded its node budget (or engine move not legal)", 1);
        // an illegal engine move is C09's business; count it visibly all the same
        if !b.clone().get_legal_moves().iter().any(|m| m.to_notation() == best) {
            out::violation("C11", "illegal-root-move", format!("search chose {best}, not a legal move, on {}", spec.text()), replay);
        }
        return;
    };
    out::count("C11.evaluations", 1);
    // a search to depth d must have completed iteration d: the root's cache entry says so
    match tt_snapshot().get(&key_u64(b.zkey)) {
        Some(e) if e.depth == depth => {}
        other => out::violation(
            "C11",
            "iteration-not-completed",
            format!(
                "search to depth {depth}: the root's cache entry after the search is {:?} (depth {depth} expected), i.e. the fixed-depth search did not run its last iteration; on {}",
                other.map(|e| (e.depth, e.score)),
                spec.text()
            ),
            replay.clone(),
        ),
    }
    c11_orderer(b, spec, job);
    if r.nodes > 50 && b.clone().get_legal_moves().len() > 1 {
        distinct.insert(key_u64(b.zkey) ^ (u64::from(depth) << 56) ^ (spec.moves.len() as u64) << 48);
    }
    if out::want_sample() && job % 97 == 1 {
        out::sample(format!(
            "C11 {} depth {depth}: engine {best} score {score} nodes {}, reference value {} (of engine move {})",
            spec.text(),
            r.nodes,
            rr.best,
            rr.of_engine_move
        ));
    }
    if i32::from(score) != rr.best {
        let kind = if rr.best.abs() > 30000 || i32::from(score).abs() > 30000 { "mate" } else { "cp" };
        out::violation(
            "C11",
            &format!("root-score-{kind}"),
            format!(
                "depth {depth}: engine score {score} but the minimax value of its look-ahead game is {} (best move(s) {:?}, engine chose {best} worth {}) on {}",
                rr.best,
                rr.best_moves,
                rr.of_engine_move,
                spec.text()
            ),
            replay.clone(),
        );
    } else if rr.of_engine_move != rr.best {
        out::violation(
            "C11",
            "root-move-value",
            format!(
                "depth {depth}: engine chose {best} worth {} but {:?} is worth {} on {}",
                rr.of_engine_move,
                rr.best_moves,
                rr.best,
                spec.text()
            ),
            replay.clone(),
        );
    }
    // cross-check of the reference itself: pure minimax, where affordable
    if depth <= 2 || job % 5 == 0 {
        if let Some(mm) = reference_root(b, ev, u32::from(depth), &best, 250_000, false) {
            out::count("C11.reference_crosschecked_by_minimax", 1);
            if mm.best != rr.best || mm.of_engine_move != rr.of_engine_move {
                out::harness_error(format!(
                    "reference alpha-beta ({}, {}) disagrees with pure minimax ({}, {}) on {} depth {depth}",
                    rr.best,
                    rr.of_engine_move,
                    mm.best,
                    mm.of_engine_move,
                    spec.text()
                ));
            }
        }
    }
}

/// "Move ordering is a pure optimisation": whatever the cache and the killer table hold, the
/// ordering iterator must yield every move of the list exactly once.
fn c11_orderer(b: &Board, spec: &PosSpec, job: usize) {
    let mut rng = Rng::derive(job as u64, 0x02DE2);
    let mut boards = vec![b.clone()];
    // the position itself and a few of its children
    let kids = b.clone().get_legal_moves();
    for _ in 0..3 {
        if kids.is_empty() {
            break;
        }
        let mut c = b.clone();
        c.make_move(*rng.pick(&kids));
        boards.push(c);
    }
    // and one position with far more moves than any game position has (six to eight queens)
    for _ in 0..40 {
        let mut sq = ['.'; 64];
        let mut put = |c: char, rng: &mut Rng| {
            for _ in 0..30 {
                let s = rng.below(64) as usize;
                if sq[s] == '.' {
                    sq[s] = c;
                    return;
                }
            }
        };
        put('K', &mut rng);
        put('k', &mut rng);
        for _ in 0..(6 + rng.below(3)) {
            put('Q', &mut rng);
        }
        put('r', &mut rng);
        let mut fen = String::new();
        for r in (0..8).rev() {
            let mut empty = 0;
            for f in 0..8 {
                let c = sq[r * 8 + f];
                if c == '.' {
                    empty += 1;
                } else {
                    if empty > 0 {
                        fen.push_str(&empty.to_string());
                        empty = 0;
                    }
                    fen.push(c);
                }
            }
            if empty > 0 {
                fen.push_str(&empty.to_string());
            }
            if r > 0 {
                fen.push('/');
            }
        }
        fen.push_str(" w - - 0 1");
        let Ok(p) = super::oracle::Pos::from_fen(&fen) else { continue };
        if !p.is_sane() {
            continue;
        }
        if let Ok(wide) = eng::load(&fen) {
            if wide.get_all_moves().len() > 128 {
                out::count("C11.orderings_of_more_than_128_moves", 1);
                boards.push(wide);
                break;
            }
        }
    }
    for board in boards {
        let all = board.get_all_moves();
        let caps: Vec<Ply> = all.iter().filter(|m| m.is_capture()).copied().collect();
        for list in [&all, &caps] {
            if list.is_empty() {
                continue;
            }
            for variant in 0..3 {
                clear_tt();
                let mut killers: [Option<Ply>; 2] = [None, None];
                if variant >= 1 {
                    killers[0] = Some(*rng.pick(list));
                    killers[1] = Some(*rng.pick(list));
                }
                if variant == 2 {
                    // a cache entry for this position naming one of the moves as best
                    TRANSPOSITION_TABLE.write().unwrap_or_else(std::sync::PoisonError::into_inner).insert(
                        board.zkey,
                        TTEntry {
                            score: 0,
                            depth: 1,
                            bound: crate::board::transposition_table::Bounds::Exact,
                            best_ply: *rng.pick(list),
                        },
                    );
                }
                let ordered = Search::verif_order_moves(list, board.zkey, &killers);
                out::count("C11.orderings_checked", 1);
                let mut a: Vec<u32> = list.iter().map(eng::ply_code).collect();
                let mut o: Vec<u32> = ordered.iter().map(eng::ply_code).collect();
                a.sort_unstable();
                o.sort_unstable();
                if a != o {
                    let missing: Vec<String> = a.iter().filter(|c| !o.contains(c)).map(|c| super::oracle::describe_code(*c)).collect();
                    let extra: Vec<String> = o.iter().filter(|c| !a.contains(c)).map(|c| super::oracle::describe_code(*c)).collect();
                    out::violation(
                        "C11",
                        "ordering-drops-or-repeats-moves",
                        format!(
                            "the ordering iterator does not yield every move once ({} given, {} yielded; never tried [{}]; tried although not in the list or twice [{}]; killers/cache variant {variant}) in a position of {}",
                            list.len(),
                            ordered.len(),
                            missing.join(" "),
                            extra.join(" "),
                            spec.text()
                        ),
                        format!("{{\"kind\":\"c11\",{},\"job\":{}}}", spec.json(), job),
                    );
                    clear_tt();
                    return;
                }
            }
        }
    }
    clear_tt();
}

// ---------------------------------------------------------------------------
// C16: determinism. Results are written to a file the driver compares across processes.
// ---------------------------------------------------------------------------

pub fn run_c16(tier: &str, seed: u64, shard: usize, of: usize, results_path: Option<&str>, time_cap: u64, order: u64) -> Result<(), String> {
    let thorough = tier == "thorough";
    let mut specs = positions(seed, if thorough { 1500 } else { 75 }, if thorough { 500 } else { 40 })?;
    // games searched move by move, as in play: position after 0, 2, 4, ... plies of the same game
    // (with its history), so that anything a search leaves behind for "the next move" is exercised
    let n_games = if thorough { 160 } else { 24 };
    let game_src: Vec<PosSpec> = specs.iter().filter(|s| s.moves.len() >= 8).take(n_games).cloned().collect();
    for g in &game_src {
        for k in (0..=g.moves.len().min(10)).step_by(2) {
            specs.push(PosSpec {
                fen: g.fen.clone(),
                moves: g.moves[..k].to_vec(),
            });
        }
    }
    // long games (well over 100 earlier positions in the record) ending in a reversible tail, so
    // that the search can step back into positions of the game
    {
        let mut rng = Rng::derive(seed, 0xC16_106);
        let n_long = if thorough { 60 } else { 10 };
        let mut made = 0;
        let mut tries = 0;
        while made < n_long && tries < n_long * 20 {
            tries += 1;
            let mut p = Pos::startpos();
            let fen = p.fen();
            let mut moves: Vec<String> = Vec::new();
            let len = 110 + rng.below(80);
            let mut ok = true;
            for k in 0..len {
                let lm = p.legal_moves();
                if lm.is_empty() {
                    ok = false;
                    break;
                }
                // the last dozen plies are quiet piece moves (a reversible tail)
                let quiet: Vec<_> = lm.iter().filter(|m| m.captured == 0 && super::oracle::kind(m.piece) != super::oracle::P && !m.castle).copied().collect();
                let m = if k + 12 >= len && !quiet.is_empty() { *rng.pick(&quiet) } else { *rng.pick(&lm) };
                moves.push(m.uci());
                p = p.make(&m);
            }
            if !ok || p.legal_moves().is_empty() || p.half >= 95 {
                continue;
            }
            specs.push(PosSpec { fen, moves });
            made += 1;
        }
    }
    let started = std::time::Instant::now();
    let mut lines = Vec::new();
    let mut distinct = 0u64;
    // the job list is fixed; the ORDER in which a process works through it depends on `order`
    // (0 = as listed, 1 = reversed, 2 = interleaved), so that state leaking from one search into
    // the next shows up as a difference between the process sets
    let mut jobs: Vec<(usize, usize, u8)> = Vec::new();
    let mut job = 0;
    for (si, spec) in specs.iter().enumerate() {
        let units = Pos::from_fen(&spec.fen).map(|p| p.sq.iter().filter(|&&x| x != 0).count()).unwrap_or(32);
        let max_depth: u8 = if units <= 8 { 5 } else { 4 };
        for depth in 1..=max_depth {
            job += 1;
            if job % of == shard {
                jobs.push((job, si, depth));
            }
        }
    }
    match order {
        1 => jobs.reverse(),
        2 => {
            let (a, b): (Vec<_>, Vec<_>) = jobs.iter().partition(|j| j.0 % 2 == 0);
            jobs = a.into_iter().chain(b).collect();
        }
        _ => {}
    }
    // anything that ages with the number of searches (generation counters, ring buffers) comes
    // round again after a power of two: every job is searched once more exactly 256 searches after
    // its first search (padding with trivial searches to hit the index), cache emptied as always
    let mut searches_done: u64 = 0;
    let mut pending: std::collections::VecDeque<(usize, u8, u64, (Option<String>, Option<i16>, u64))> = std::collections::VecDeque::new();
    let trivial = eng::load("7k/8/8/8/8/8/8/K7 w - - 0 1").ok();
    for (job, si, depth) in jobs {
        let spec = &specs[si];
        while let Some((psi, pdepth, target, first)) = pending.front().cloned() {
            if target < searches_done {
                pending.pop_front();
                continue;
            }
            if target - searches_done > 3 {
                break;
            }
            pending.pop_front();
            while searches_done < target {
                if let Some(t) = &trivial {
                    clear_tt();
                    let _ = engine_search(t, None, Some(1));
                }
                searches_done += 1;
            }
            if let Ok((pb, _)) = specs[psi].build() {
                clear_tt();
                let r = engine_search(&pb, None, Some(pdepth));
                searches_done += 1;
                out::count("C16.reruns_256_searches_later", 1);
                let cur = (r.best.clone(), r.score, r.nodes);
                if r.panicked.is_none() && cur != first {
                    out::violation(
                        "C16",
                        "repeat-after-256-searches",
                        format!(
                            "depth {pdepth} from an empty cache, searched again exactly 256 searches later in the same process: {:?}, the first time {:?}, on {}",
                            cur,
                            first,
                            specs[psi].text()
                        ),
                        format!("{{\"kind\":\"c16\",{},\"depth\":{}}}", specs[psi].json(), pdepth),
                    );
                }
            }
        }
        {
            if started.elapsed().as_secs() > time_cap {
                out::inconclusive("C16 jobs not started because the time cap was reached", 1);
                continue;
            }
            let Ok((b, _)) = spec.build() else { continue };
            let mut first: Option<(Option<String>, Option<i16>, u64)> = None;
            let first_index = searches_done;
            for rep in 0..(if thorough { 3 } else { 2 }) {
                if rep >= 1 {
                    // in between, a search that is cut short (node budget, as in every game move):
                    // whatever it leaves behind outside the cache must not reach the next search
                    let mut crng = Rng::derive(seed, 0xC16_C07 + job as u64 * 4 + rep as u64);
                    let budget = 1 + crng.below(3_000);
                    clear_tt();
                    let _ = engine_search(&b, Some(SearchLimits::new().nodes(Some(budget))), Some(depth.saturating_add(2)));
                    searches_done += 1;
                    out::count("C16.cut_short_searches_before_a_repeat", 1);
                }
                clear_tt();
                let r = engine_search(&b, None, Some(depth));
                searches_done += 1;
                if let Some(p) = r.panicked {
                    out::violation(
                        "C16",
                        &format!("panic@{}", super::last_panic_location()),
                        format!("search to depth {depth} panicked ({p}) on {}", spec.text()),
                        format!("{{\"kind\":\"c16\",{},\"depth\":{}}}", spec.json(), depth),
                    );
                    break;
                }
                let cur = (r.best.clone(), r.score, r.nodes);
                out::count("C16.evaluations", 1);
                match &first {
                    None => first = Some(cur),
                    Some(f) if *f != cur => {
                        out::violation(
                            "C16",
                            "same-process-repeat",
                            format!(
                                "depth {depth} from an empty cache, run {}: (move,score,nodes) = {:?} but the first run gave {:?} on {}",
                                rep + 1,
                                cur,
                                f,
                                spec.text()
                            ),
                            format!("{{\"kind\":\"c16\",{},\"depth\":{}}}", spec.json(), depth),
                        );
                    }
                    _ => {}
                }
            }
            if let Some(f) = first.clone() {
                if f.2 > 200 && pending.len() < 64 {
                    pending.push_back((si, depth, first_index + 256, f));
                }
            }
            if let Some(f) = first {
                if f.2 > 50 {
                    distinct += 1;
                }
                lines.push(format!("{job}\t{}\t{depth}\t{:?}\t{:?}\t{}", spec.text(), f.0, f.1, f.2));
                if out::want_sample() && job % 53 == 1 {
                    out::sample(format!("C16 {} depth {depth}: 3 runs agree on {:?} score {:?} nodes {}", spec.text(), f.0, f.1, f.2));
                }
            }
        }
    }
    // a long think, then very many trivial searches, then the same long think again: state that
    // ages with the number of searches and is only refreshed where a search actually goes comes
    // round again after 2^8 (and, thorough only, 2^16) searches
    if let (Some(t), Some(heavy)) = (&trivial, specs.iter().skip(shard % 7).find(|s| s.moves.len() >= 4)) {
        if let Ok((hb, _)) = heavy.build() {
            let periods: &[u64] = if thorough && shard == 0 { &[256, 65_536] } else { &[256] };
            for &period in periods {
                if started.elapsed().as_secs() > time_cap {
                    break;
                }
                clear_tt();
                let a = engine_search(&hb, None, Some(4));
                for _ in 0..(period - 1) {
                    clear_tt();
                    let _ = engine_search(t, None, Some(1));
                }
                clear_tt();
                let b2 = engine_search(&hb, None, Some(4));
                out::count("C16.long_think_repeated_after_many_trivial_searches", 1);
                let (x, y) = ((a.best.clone(), a.score, a.nodes), (b2.best.clone(), b2.score, b2.nodes));
                if a.panicked.is_none() && b2.panicked.is_none() && x != y {
                    out::violation(
                        "C16",
                        "repeat-after-many-trivial-searches",
                        format!("depth 4 from an empty cache: {:?}; again after {} trivial searches in between: {:?}; on {}", x, period - 1, y, heavy.text()),
                        format!("{{\"kind\":\"c16\",{},\"depth\":4}}", heavy.json()),
                    );
                }
            }
        }
    }
    out::count("C16.nontrivial", distinct);
    if let Some(p) = results_path {
        // sorted by job number so that files of differently ordered runs compare line by line
        lines.sort_by_key(|l: &String| l.split('\t').next().and_then(|x| x.parse::<usize>().ok()).unwrap_or(0));
        std::fs::write(p, lines.join("\n") + "\n").map_err(|e| e.to_string())?;
    }
    Ok(())
}

// ---------------------------------------------------------------------------
// C13: prefix conservation of cache writes under interruption
// ---------------------------------------------------------------------------

fn entry_text(e: &Option<TTEntry>) -> String {
    match e {
        None => "none".to_string(),
        Some(t) => format!("score {} depth {} {:?} move {}", t.score, t.depth, t.bound, t.best_ply.to_notation()),
    }
}

fn ev_sig(e: &TtEvent) -> (String, u64, Option<TTEntry>) {
    (e.site.to_string(), key_u64(e.key), e.entry)
}

/// Pairs (i, j) of write indices in a log: write i stores an Exact entry for a key, and the very
/// next write j to the same key stores a different entry of the SAME depth. An Exact entry of
/// depth d answers every later probe of that position up to depth d, so a finished node is never
/// written again at its own depth; write i was therefore made while its node was still being
/// searched (a provisional value), and a cut that falls between i and j leaves it in the cache.
fn provisional_writes(log: &[TtEvent]) -> Vec<(usize, usize)> {
    let mut last: HashMap<u64, usize> = HashMap::new();
    let mut out = Vec::new();
    for (j, e) in log.iter().enumerate() {
        let k = key_u64(e.key);
        if let (Some(&i), Some(ej)) = (last.get(&k), e.entry) {
            if let Some(ei) = log[i].entry {
                if matches!(ei.bound, crate::board::transposition_table::Bounds::Exact) && ei.depth == ej.depth && ei != ej {
                    out.push((i, j));
                }
            }
        }
        last.insert(k, j);
    }
    out
}

thread_local! {
    static PROVISIONAL: std::cell::RefCell<(usize, usize, Vec<(usize, usize)>)> = const { std::cell::RefCell::new((0, 0, Vec::new())) };
}

fn replay_table(log: &[TtEvent]) -> HashMap<u64, TTEntry> {
    let mut m = HashMap::new();
    for e in log {
        if let Some(en) = e.entry {
            m.insert(key_u64(e.key), en);
        }
    }
    m
}

pub fn run_c13(tier: &str, seed: u64, shard: usize, of: usize, only_job: Option<usize>, time_cap: u64) -> Result<(), String> {
    let thorough = tier == "thorough";
    let specs = positions(seed, if thorough { 400 } else { 40 }, if thorough { 200 } else { 20 })?;
    let started = std::time::Instant::now();
    let mut rng = Rng::derive(seed, 0xC13);
    let mut job = 0;
    let mut distinct_cuts = 0u64;
    // choose (P, d) pairs whose full search is small enough to try every budget
    let max_full = if thorough { 12_000 } else { 4_000 };
    let want_pairs = (if thorough { 1_400 } else { 192 } + of - 1) / of;
    let mut order: Vec<usize> = (0..specs.len()).collect();
    for i in (1..order.len()).rev() {
        order.swap(i, rng.below(i as u64 + 1) as usize);
    }
    let mut pairs = 0;
    for idx in order {
        if pairs >= want_pairs {
            break;
        }
        let spec = &specs[idx];
        let Ok((b, _)) = spec.build() else { continue };
        for depth in [2u8, 3, 4] {
            job += 1;
            if job % of != shard {
                continue;
            }
            if let Some(j) = only_job {
                if j != job {
                    continue;
                }
            }
            if started.elapsed().as_secs() > time_cap {
                out::inconclusive("C13 jobs not started because the time cap was reached", 1);
                continue;
            }
            // the uninterrupted run
            clear_tt();
            verif_hooks::tt_record_start();
            let full = engine_search(&b, None, Some(depth));
            let f_log = verif_hooks::tt_record_take();
            let f_table = tt_snapshot();
            if full.panicked.is_some() || full.nodes == 0 {
                continue;
            }
            if replay_table(&f_log) != f_table {
                out::violation(
                    "C13",
                    "unobserved-write-full",
                    format!("the cache after an uninterrupted depth-{depth} search differs from the replay of the observed writes (a write site without observer?) on {}", spec.text()),
                    format!("{{\"kind\":\"c13\",{},\"depth\":{},\"job\":{}}}", spec.json(), depth, job),
                );
            }
            if full.nodes > max_full || f_log.len() < 2 {
                continue;
            }
            pairs += 1;
            out::count("C13.pairs", 1);
            let stride = if thorough && full.nodes > 5_000 { 3 } else { 1 };
            let mut n = 1;
            while n <= full.nodes {
                c13_cut(&b, spec, depth, job, n, &f_log, &mut distinct_cuts);
                n += stride;
            }
            // asynchronous stop from another thread
            for k in 0..(if thorough { 40 } else { 12 }) {
                c13_async_stop(&b, spec, depth, job, k, &f_log, &mut rng, &mut distinct_cuts);
            }
            // the clock as interrupter: movetime and a few milliseconds on the clock
            for k in 0..(if thorough { 16 } else { 8 }) {
                c13_clock(&b, spec, depth, job, k, &f_log, &mut distinct_cuts);
            }
        }
    }
    // Clock pass on larger trees: the game clock (wtime/btime/increments) cuts through the time
    // manager, a different path from node budgets, movetime and stop. Bigger trees give the cut
    // many more places to fall (every budget is not needed here, the clock picks the point).
    let clock_positions = (if thorough { 640 } else { 96 } + of - 1) / of;
    let mut done = 0;
    for (i, spec) in specs.iter().enumerate() {
        if done >= clock_positions {
            break;
        }
        if i % of != shard || only_job.is_some() {
            continue;
        }
        if started.elapsed().as_secs() > time_cap {
            out::inconclusive("C13 clock-pass positions not started because the time cap was reached", 1);
            break;
        }
        let Ok((b, _)) = spec.build() else { continue };
        let depth = 4u8;
        clear_tt();
        verif_hooks::tt_record_start();
        let full = engine_search(&b, None, Some(depth));
        let f_log = verif_hooks::tt_record_take();
        if full.panicked.is_some() || full.nodes < 1_500 || full.nodes > 400_000 || f_log.len() < 10 {
            continue;
        }
        done += 1;
        out::count("C13.clock_pass_positions", 1);
        for (k, ms) in [1u128, 19, 25, 45, 70, 110, 170, 1, 30, 60, 120, 2, 40, 90].iter().enumerate() {
            clear_tt();
            verif_hooks::tt_record_start();
            let limits = match k {
                0 | 3 | 6 => SearchLimits::new().white_time(Some(*ms)).black_time(Some(*ms)),
                1 | 4 => SearchLimits::new().white_time(Some(*ms)).black_time(Some(*ms)).white_increment(Some(0)).black_increment(Some(0)),
                2 | 5 => SearchLimits::new().white_increment(Some(*ms / 10)).black_increment(Some(*ms / 10)),
                // one-sided clocks: only White's, only Black's, one side's time and the other's increment
                7 | 8 => SearchLimits::new().white_time(Some(*ms)),
                9 => SearchLimits::new().white_time(Some(*ms)).white_increment(Some(1)),
                10 | 11 => SearchLimits::new().black_time(Some(*ms)),
                12 => SearchLimits::new().black_time(Some(*ms)).black_increment(Some(1)),
                _ => SearchLimits::new().white_time(Some(*ms)).black_increment(Some(1)),
            };
            let how = format!("game clock {limits:?}");
            let r = engine_search(&b, Some(limits), Some(depth));
            let s_log = verif_hooks::tt_record_take();
            let s_table = tt_snapshot();
            if r.panicked.is_some() {
                out::count("C13.interrupted_searches_that_panicked", 1);
            }
            out::count("C13.clock_interruptions", 1);
            c13_compare(spec, depth, 200_000 + i, &how, &s_log, &s_table, &f_log, None, &mut distinct_cuts);
        }
    }
    // Warm pass: in a game the cache is never empty. A deeper search of the position two plies
    // earlier fills it, the engine's move and a reply chosen by the opponent (not necessarily the
    // expected one) are played, and the search of the new position starts from THAT table. The
    // reference is the uninterrupted search from the same table (restored before every run).
    let warm_positions = (if thorough { 480 } else { 64 } + of - 1) / of;
    let mut warm_done = 0;
    for (i, spec) in specs.iter().enumerate().rev() {
        if warm_done >= warm_positions || only_job.is_some() {
            break;
        }
        if i % of != shard {
            continue;
        }
        if started.elapsed().as_secs() > time_cap {
            out::inconclusive("C13 warm-pass positions not started because the time cap was reached", 1);
            break;
        }
        let Ok((b, _)) = spec.build() else { continue };
        if c13_warm(&b, spec, 300_000 + i, &mut rng, thorough, &mut distinct_cuts) {
            warm_done += 1;
        }
    }
    out::count("C13.nontrivial", distinct_cuts);
    Ok(())
}

fn restore_tt(table: &crate::board::transposition_table::TranspositionTable) {
    TRANSPOSITION_TABLE.write().unwrap_or_else(std::sync::PoisonError::into_inner).clone_from(table);
}

fn c13_warm(b: &Board, spec: &PosSpec, job: usize, rng: &mut Rng, thorough: bool, distinct_cuts: &mut u64) -> bool {
    clear_tt();
    let prep = engine_search(b, None, Some(4));
    if prep.panicked.is_some() || prep.nodes > 300_000 {
        return false;
    }
    let Some(best) = prep.best.clone() else { return false };
    let mut b1 = b.clone();
    let Some(mv) = b1.get_legal_moves().into_iter().find(|m| m.to_string() == best) else { return false };
    b1.make_move(mv);
    let replies = b1.get_legal_moves();
    if replies.is_empty() {
        return false;
    }
    let reply = *rng.pick(&replies);
    let mut b2 = b1.clone();
    b2.make_move(reply);
    if b2.get_legal_moves().is_empty() {
        return false;
    }
    let warm = TRANSPOSITION_TABLE.read().unwrap_or_else(std::sync::PoisonError::into_inner).clone();
    let depth = 3u8;
    restore_tt(&warm);
    verif_hooks::tt_record_start();
    let full = engine_search(&b2, None, Some(depth));
    let f_log = verif_hooks::tt_record_take();
    if full.panicked.is_some() || full.nodes < 30 || full.nodes > 60_000 || f_log.len() < 3 {
        return false;
    }
    // the reference must repeat itself from the same table
    restore_tt(&warm);
    verif_hooks::tt_record_start();
    let again = engine_search(&b2, None, Some(depth));
    let a_log = verif_hooks::tt_record_take();
    if again.nodes != full.nodes || a_log.len() != f_log.len() || a_log.iter().zip(&f_log).any(|(x, y)| ev_sig(x) != ev_sig(y)) {
        out::inconclusive("C13 warm pass: the uninterrupted search does not repeat itself from the same table", 1);
        return false;
    }
    out::count("C13.warm_table_positions", 1);
    out::set_max("C13.max_entries_in_a_warm_table", warm.len() as u64);
    let provisional = provisional_writes(&f_log);
    let budgets = if thorough { 900 } else { 400 };
    let stride = (full.nodes / budgets).max(1);
    let mut n = 1 + rng.below(stride);
    while n <= full.nodes {
        restore_tt(&warm);
        verif_hooks::tt_record_start();
        let r = engine_search(&b2, Some(SearchLimits::new().nodes(Some(n))), Some(depth));
        let s_log = verif_hooks::tt_record_take();
        if r.panicked.is_some() {
            out::count("C13.interrupted_searches_that_panicked", 1);
        }
        out::count("C13.evaluations", 1);
        out::count("C13.warm_table_cuts", 1);
        let mut common = 0;
        while common < s_log.len() && common < f_log.len() && ev_sig(&s_log[common]) == ev_sig(&f_log[common]) {
            common += 1;
        }
        if common > 0 && common < f_log.len() {
            *distinct_cuts += 1;
        }
        let replay = format!("{{\"kind\":\"c13-warm\",{},\"job\":{},\"played\":[{},{}],\"budget\":{}}}", spec.json(), job, esc(&best), esc(&reply.to_string()), n);
        if common < s_log.len() {
            let e = &s_log[common];
            out::violation(
                "C13",
                &format!("warm-table-write-from-unfinished-subtree-{}", e.site),
                format!(
                    "node budget {n}, cache filled by a depth-4 search two plies earlier ({} entries): {} cache write(s) that the uninterrupted search from the same table never makes at that point; first: site '{}' key {} entry [{}] at nodes={} (write #{common} of {}; the uninterrupted search has [{}] there), depth {depth} after {best} {reply} on {}",
                    warm.len(),
                    s_log.len() - common,
                    e.site,
                    key_u64(e.key),
                    entry_text(&e.entry),
                    e.nodes,
                    s_log.len(),
                    f_log.get(common).map_or("nothing more".to_string(), |x| entry_text(&x.entry)),
                    spec.text()
                ),
                replay,
            );
        } else if let Some((i, j)) = provisional.iter().find(|(i, j)| *i < s_log.len() && s_log.len() <= *j) {
            out::violation(
                "C13",
                &format!("warm-table-provisional-entry-left-behind-{}", f_log[*i].site),
                format!("node budget {n} (warm table): the cache keeps [{}], replaced at the same depth by [{}] when the node is finished; depth {depth} after {best} {reply} on {}", entry_text(&f_log[*i].entry), entry_text(&f_log[*j].entry), spec.text()),
                replay,
            );
        }
        n += stride;
    }
    true
}

fn c13_compare(
    spec: &PosSpec,
    depth: u8,
    job: usize,
    how: &str,
    s_log: &[TtEvent],
    s_table: &HashMap<u64, TTEntry>,
    f_log: &[TtEvent],
    budget: Option<u64>,
    distinct_cuts: &mut u64,
) {
    out::count("C13.evaluations", 1);
    let replay = format!(
        "{{\"kind\":\"c13\",{},\"depth\":{},\"job\":{},\"how\":{}}}",
        spec.json(),
        depth,
        job,
        esc(how)
    );
    // 1. the interrupted run's writes must be a prefix of the uninterrupted run's writes
    let mut common = 0;
    while common < s_log.len() && common < f_log.len() && ev_sig(&s_log[common]) == ev_sig(&f_log[common]) {
        common += 1;
    }
    if common > 0 && common < f_log.len() {
        *distinct_cuts += 1;
    }
    if common < s_log.len() {
        let e = &s_log[common];
        let extra = s_log.len() - common;
        out::violation(
            "C13",
            &format!("write-from-unfinished-subtree-{}", e.site),
            format!(
                "{how}: {extra} cache write(s) that the uninterrupted search never makes at that point; first: site '{}' key {} entry [{}] at nodes={} budget={:?} running={} (write #{common} of {}), depth {depth} on {}",
                e.site,
                key_u64(e.key),
                entry_text(&e.entry),
                e.nodes,
                e.node_budget,
                e.running,
                s_log.len(),
                spec.text()
            ),
            replay.clone(),
        );
    }
    // 1b. nothing provisional may be left behind: the cut must not fall between a write and the
    //     write that replaces it when the same node is finished (see provisional_writes)
    if common >= s_log.len() {
        let hit = PROVISIONAL.with(|c| {
            let mut c = c.borrow_mut();
            if c.0 != f_log.as_ptr() as usize || c.1 != f_log.len() {
                *c = (f_log.as_ptr() as usize, f_log.len(), provisional_writes(f_log));
                out::count("C13.full_logs_scanned_for_provisional_writes", 1);
            }
            let l = s_log.len();
            c.2.iter().find(|(i, j)| *i < l && l <= *j).copied()
        });
        if let Some((i, j)) = hit {
            let (a, b) = (&f_log[i], &f_log[j]);
            out::violation(
                "C13",
                &format!("provisional-entry-left-behind-{}", a.site),
                format!(
                    "{how}: the cache keeps [{}] for key {} (write #{i}, site '{}'), a value stored while that node was still being searched: the uninterrupted search replaces it at the same depth by [{}] (write #{j}, site '{}') when the node is finished; depth {depth} on {}",
                    entry_text(&a.entry),
                    key_u64(a.key),
                    a.site,
                    entry_text(&b.entry),
                    b.site,
                    spec.text()
                ),
                replay.clone(),
            );
        }
    }
    // 2. no write once the budget is spent / the flag is down
    if let Some(bad) = s_log.iter().find(|e| budget.is_some_and(|b| e.nodes >= b)) {
        if common >= s_log.len() {
            // only reported separately when rule 1 did not already fire
            out::violation(
                "C13",
                &format!("write-after-abort-{}", bad.site),
                format!(
                    "{how}: cache write at site '{}' with nodes={} budget={:?} running={} on {}",
                    bad.site,
                    bad.nodes,
                    bad.node_budget,
                    bad.running,
                    spec.text()
                ),
                replay.clone(),
            );
        }
    }
    // 3. the table itself must be what the observed writes produce (catches an unobserved site)
    if replay_table(s_log) != *s_table {
        out::violation(
            "C13",
            "unobserved-write",
            format!("{how}: cache contents differ from the replay of the observed writes, depth {depth} on {}", spec.text()),
            replay,
        );
    }
}

fn c13_cut(b: &Board, spec: &PosSpec, depth: u8, job: usize, n: u64, f_log: &[TtEvent], distinct_cuts: &mut u64) {
    clear_tt();
    verif_hooks::tt_record_start();
    // every other budget also carries the depth limit inside the limits, the way `go depth D nodes N`
    // builds them (the iteration loop gets the same depth either way)
    let limits = if n % 2 == 1 { SearchLimits::new().nodes(Some(n)).depth(Some(depth)) } else { SearchLimits::new().nodes(Some(n)) };
    let r = engine_search(b, Some(limits), Some(depth));
    let s_log = verif_hooks::tt_record_take();
    let s_table = tt_snapshot();
    if r.panicked.is_some() {
        out::count("C13.interrupted_searches_that_panicked", 1);
    }
    if out::want_sample() && n % 211 == 7 {
        out::sample(format!(
            "C13 {} depth {depth} node budget {n}: {} writes, uninterrupted run makes {}",
            spec.text(),
            s_log.len(),
            f_log.len()
        ));
    }
    c13_compare(spec, depth, job, &format!("node budget {n}"), &s_log, &s_table, f_log, Some(n), distinct_cuts);
}

fn c13_clock(b: &Board, spec: &PosSpec, depth: u8, job: usize, k: u64, f_log: &[TtEvent], distinct_cuts: &mut u64) {
    clear_tt();
    verif_hooks::tt_record_start();
    let limits = if k % 2 == 0 {
        SearchLimits::new().movetime(Some(u128::from(k / 2)))
    } else if k % 4 == 1 {
        // time manager: clock/20 + increment/2 milliseconds for the side to move
        SearchLimits::new().white_time(Some(u128::from(k) * 10)).black_time(Some(u128::from(k) * 10))
    } else {
        // only one side's clock is given (a GUI may send just the mover's, or just one of them)
        match k % 8 {
            3 => SearchLimits::new().white_time(Some(u128::from(k) * 10)).white_increment(Some(0)),
            _ => SearchLimits::new().black_time(Some(u128::from(k) * 10)).black_increment(Some(0)),
        }
    };
    let how = format!("clock limits {limits:?}");
    let r = engine_search(b, Some(limits), Some(depth));
    let s_log = verif_hooks::tt_record_take();
    let s_table = tt_snapshot();
    if r.panicked.is_some() {
        out::count("C13.interrupted_searches_that_panicked", 1);
    }
    out::count("C13.clock_interruptions", 1);
    c13_compare(spec, depth, job, &how, &s_log, &s_table, f_log, None, distinct_cuts);
}

#[allow(clippy::too_many_arguments)]
fn c13_async_stop(b: &Board, spec: &PosSpec, depth: u8, job: usize, k: u64, f_log: &[TtEvent], rng: &mut Rng, distinct_cuts: &mut u64) {
    clear_tt();
    verif_hooks::tt_record_start();
    let board = b.clone();
    let spin = rng.below(40_000);
    let mut s = Search::new(&board, None);
    let flag = s.running.clone();
    let stopper = std::thread::spawn(move || {
        // seeded busy-wait, then flip the flag: real asynchrony, any arrival point
        let mut x = 0u64;
        for i in 0..spin {
            x = x.wrapping_add(i).rotate_left(3);
            std::hint::black_box(x);
        }
        flag.store(false, Ordering::Relaxed);
    });
    let pr = std::panic::catch_unwind(std::panic::AssertUnwindSafe(|| {
        s.search(&SimpleEvaluator, Some(depth));
    }));
    let _ = stopper.join();
    let s_log = verif_hooks::tt_record_take();
    let s_table = tt_snapshot();
    if pr.is_err() {
        out::count("C13.interrupted_searches_that_panicked", 1);
    }
    out::count("C13.async_stops", 1);
    // Note: Search::search re-arms the flag at entry, so a very early stop may be lost and the
    // search then runs to completion; that is C10's business, the prefix rule still applies.
    c13_compare(spec, depth, job, &format!("asynchronous stop #{k} after {spin} spins"), &s_log, &s_table, f_log, None, distinct_cuts);
}
